"""C10 — path addressing is exact: parse/format, arithmetic, ordering, lookup, traversal, flatten/canonicalize, path sets."""
import copy, json, os, sys, unicodedata
from harness.lib import tr as trlib
from harness.translators import keypath_src, keypathset_src

META = dict(
    id='C10',
    model_run='PG.Model.Hier.run',
    model_targets=['Model/KeyPathDigits.vo', 'Model/KeyPath.vo', 'Model/Hier.vo'],
    instance_obligations=['src_is_expected (Proofs/KeyPathMachineLink.v: the programs regenerated from the source of KeyPath.parse / _append_key / path_str / _has_special_chars by harness/translators/keypath_src.py equal the programs the interpreter proofs are about; reflexivity, re-checked every run)',
                          'src_kps_is_expected (Proofs/KeyPathSetMachineLink.v: the per-entry decisions of _remove_same / _remove_diff / _merge regenerated from the source by harness/translators/keypathset_src.py, incl. deep copy in _merge, copy+update in the copying forms, and the marker constant, equal the data the kernel proofs are about; reflexivity, re-checked every run)',
                          'unicode_digit_table (Model/KeyPathDigits.v equals str.isdigit / int() of the running interpreter on all 1,114,112 code points; re-derived every run)'],
    technique=('Coq proof over an executable model of value_location.py / hierarchical.py (parse state machine, path_str, arithmetic, ordering, '
               'the KeyPathSet trie as the literal dict of dicts, traverse, flatten, canonicalize) + differential correspondence of every modelled '
               'operation against the implementation + direct oracle (the property text on the real objects)'),
    design_ref='DESIGN.md §5 C10',
    level_text=('Theorems (no bound on lengths or depth): parse(path_str(ks)) = ks for every list of integer keys and non-empty bracket-balanced string keys, hence printing is injective; '
                'path arithmetic laws (+, -, parent, key, is_relative_to) as equivalences with list concatenation; < is a strict total order on key lists that agrees with the sequences '
                '(prefix first, ints numerically, strings by code point, int before string); the KeyPathSet trie, modelled as the literal dict of dicts of the code, refines a mathematical set under '
                'add/remove/in/union/intersection/difference/rebase, iteration lists exactly the members once, bool is non-emptiness, no API sequence raises (for all paths once the open dollar finding is repaired; '
                'as the code is: for all paths without a dollar key, plus a refutation witness); traversal visits every node exactly once and the reported path looked up from the root returns the node; '
                'utils.traverse with arbitrary visitors logs exactly the full log cut after the first False; pg.traverse returns False iff some visitor answered STOP; pg.query is characterised exactly for enter_selected True and False; merge_tree (merge_fn=None) lookup law, idempotence and agreement with canonicalize\'s conflict-checking merge; add(include_intermediate=True) on any reachable set; canonicalize(flatten(v, False)) = v for every nested value with distinct admissible keys and no dict whose keys are exactly 0..n-1 (any depth, lists and dicts mixed). Tie: (1) a fail-closed ast translator regenerates, on every run, the bodies of KeyPath.parse, _append_key, path_str and _has_special_chars statement by statement as programs of a small imperative language (Gen/KeyPathSrc.v); interpreting them is proved equal to the model\'s parse/format, so the round-trip theorem holds for the code as translated (C10_parse_format_src), and likewise the per-entry decisions of the KeyPathSet helpers _remove_same/_remove_diff/_merge (Gen/KeyPathSetSrc.v, C10_src_set_kernels; the translator also requires the deep copies); (2) every modelled operation is run against value_location.py / hierarchical.py / pg.traverse / pg.query on the same inputs on every run '
                '(12 case kinds, exact outcome incl. error kind and set iteration order), the Unicode digit table of the model is compared with the interpreter, and the property text is evaluated on the real objects on every case.'),
    level_note=('Partial: utils.merge, utils.transform with a deleting function, the result of merge_into_list and the exact KeyError conditions of canonicalize are modelled and checked by correspondence and oracle only (no theorem yet). '
                'Not modelled: custom key objects, bool keys, tuples, MISSING_VALUE leaves, pg.Object nodes, regex/where of pg.query, user merge functions, subtree aliasing. '
                'Trusted: Coq kernel, stdlib DecimalZ, extraction cross-checked by vm_compute, the Python harness (generators, driver, exception canonicalisation), CPython str.isdigit/int/str comparison. '
                'No open finding: the collision of the path key "$" with the trie end marker was repaired (b919440); the quirk flag q_dollar stays in the model and is set by replaying the witness.'),
    rule=('a case is one modelled operation with its inputs (key list / path string / path pair / KeyPathSet op sequence / nested value); distinct by the '
          'canonical case tree; non-trivial when it has a key with a delimiter, digit or non-ASCII character, a negative or multi-digit integer, '
          'an error outcome, a set sequence with at least 3 ops, or a value of depth >= 2'),
    trusted_base=['translator harness/translators/keypathset_src.py (fail-closed ast reader of the three KeyPathSet algebra helpers) and the interpreters of Model/KeyPathSetMachine.v',
                  'translator harness/translators/keypath_src.py (fail-closed ast reader of KeyPath.parse/_append_key/path_str) and the interpreter of Model/KeyPathMachine.v as the meaning of the recognised statements',
                  'extraction: ExtrOcamlBasic only; ocaml/main.ml lexer/printer; cross-checked against vm_compute on a sample',
                  'harness/props/c10.py: generators, implementation driver, canonicalisation of exceptions to small integers',
                  'CPython str.isdigit / int() / str comparison (the digit table is compared with the interpreter on every run)'],
    assumptions=['int() digit-count limit (4300) and memory limits are not modelled; strings are sequences of code points'],
)

# ------------------------------------------------------------------------------------------------
def py():
  from pyglove.core.utils import value_location as vl, hierarchical as hi
  return vl, hi

ALPHABET = ['.', '[', ']', '-', '0', '7', 'a', '²', 'é', '\U0001d4b3', ' ', "'", '"', '$', '٣', 'b', '1', '１', '+', '_', '\t']

# ---- conversion between Python values and wire trees ------------------------------------------------
def ekey(k):
  if isinstance(k, bool): raise TypeError('bool key')
  if isinstance(k, int): return [1, k]
  if isinstance(k, str): return [0, [ord(c) for c in k]]
  raise TypeError('key %r' % (k,))
def epath(keys): return [ekey(k) for k in keys]
def dkey(t): return ''.join(chr(c) for c in t[1]) if t[0] == 0 else t[1]
def dpath(t): return [dkey(k) for k in t]
def estr(s): return [ord(c) for c in s]
def epv(v):
  if v is None: return [0]
  if isinstance(v, bool): raise TypeError('bool value')
  if isinstance(v, int): return [1, v]
  if isinstance(v, str): return [2, estr(v)]
  if isinstance(v, list): return [3, [epv(x) for x in v]]
  if isinstance(v, dict): return [4, [[ekey(k), epv(x)] for k, x in v.items()]]
  raise TypeError('value %r' % (v,))

ERR = {KeyError: 0, ValueError: 1, IndexError: 2, TypeError: 3}
def eerr(e):
  for cls, c in ERR.items():
    if type(e) is cls: return [1, c]
  return [1, 90, estr(type(e).__name__)]

# An exception of the library that no driver expects is an OUTCOME of the case (an error node in the tree, so the
# correspondence disagrees) and is recorded here; run() turns every record into an oracle hit with a replayable case.
ESCAPED = []
def _is_sym(v):
  try:
    import pyglove as pg
    return isinstance(v, pg.Symbolic)
  except Exception:
    return False
def _value_case(v):
  try:
    return dict(kind='value', value_tr=epv(plain(v)), sym=_is_sym(v), shown=repr(plain(v))[:300])
  except Exception:
    return dict(kind='unencodable', shown=repr(v)[:300])
def escaped(op, e, case):
  ESCAPED.append((op, type(e).__name__, str(e)[:120], case))
  return [1, 98, estr(type(e).__name__)]
def guarded(op, case_of):
  """Decorator: the driver never raises; an escaping exception becomes the outcome (1 98 <name>) and is recorded."""
  def deco(fn):
    def wrapper(*a, **kw):
      try:
        return fn(*a, **kw)
      except Exception as e:      # noqa: the library may raise anything
        try: case = case_of(*a, **kw)
        except Exception: case = dict(kind='unencodable', shown=repr(a)[:300])
        return escaped(op, e, case)
    wrapper.__name__ = fn.__name__
    return wrapper
  return deco

def key_ok(k):
  if isinstance(k, int): return True
  if not k: return False
  d = 0
  for c in k:
    if c == '[': d += 1
    elif c == ']':
      d -= 1
      if d < 0: return False
  return d == 0

def same_keys(a, b):
  return len(a) == len(b) and all(type(x) is type(y) and x == y for x, y in zip(a, b))

# ---- implementation driver -------------------------------------------------------------------------
@guarded('path_str', lambda p, preserve: dict(kind='roundtrip', keys=list(p)))
def impl_format(p, preserve):
  vl, _ = py()
  return [0, estr(vl.KeyPath(list(p)).path_str(bool(preserve)))]

@guarded('str', lambda p: dict(kind='roundtrip', keys=list(p)))
def impl_roundtrip(p):
  vl, _ = py()
  return impl_parse(vl.KeyPath(list(p)).path)

def impl_parse(s):
  vl, _ = py()
  try:
    return [0, epath(vl.KeyPath.parse(s).keys)]
  except ValueError as e:
    m = str(e)
    if 'unmatched close bracket' in m: return [1, 0]
    if 'unmatched open bracket' in m: return [1, 1]
    if 'invalid literal for int' in m: return [1, 2]
    return [1, 91, estr(m[:40])]
  except Exception as e:
    return escaped('parse', e, dict(kind='parse', string=s))

def arg_form(q, rng):
  """The same path as another accepted argument form (KeyPath | printed string | int); equivalent by the round trip."""
  vl, _ = py()
  Q = vl.KeyPath(list(q))
  if rng is None: return Q
  r = rng.random()
  if r < 0.3 and all(key_ok(k) for k in q): return str(Q)
  if r < 0.5 and len(q) == 1 and isinstance(q[0], int): return q[0]
  if r < 0.55 and not q: return None
  return Q

def impl_arith(op, p, q, rng=None):
  vl, _ = py()
  P, Q = vl.KeyPath(list(p)), vl.KeyPath(list(q))
  try:
    if op == 0: return [0, epath((P + arg_form(q, rng)).keys)]
    if op == 1:
      try:
        return [0, epath((P - arg_form(q, rng)).keys)]
      except ValueError as e:
        return [1, 1 if 'is an ancestor of' in str(e) else 2 if 'different subtree' in str(e) else 93]
    if op == 2:
      try: return [0, epath(P.parent.keys)]
      except KeyError: return [1, 0]
    if op == 3:
      a = arg_form(q, rng)
      return [0, int(P.is_relative_to(Q if a is None else a))]
    if op == 4: return [0, int(P < Q)]
    if op == 5: return [0, int(P <= Q)]
    if op == 6: return [0, int(P > Q)]
    if op == 7: return [0, int(P >= Q)]
    if op == 8: return [0, int(P == Q)]
    if op == 9:
      try: return [0, ekey(P.key)]
      except KeyError: return [1, 0]
    if op == 10: return [0, int(P == str(Q))]
    if op == 11: return [0, len(P)]
    if op == 12: return [0, int(P < str(Q))]
    if op == 13: return [0, int(P <= str(Q))]
    if op == 14: return [0, int(P > str(Q))]
    if op == 15: return [0, int(P >= str(Q))]
    if op == 16:
      try:
        return [0, epath(vl.KeyPath.parse(str(Q), parent=P).keys)]
      except ValueError as e:
        m = str(e)
        return [1, 10 if 'unmatched close' in m else 11 if 'unmatched open' in m else 12 if 'invalid literal' in m else 95]
    if op == 17:
      if len(q) == 1 and rng is not None and rng.random() < 0.5 and not isinstance(q[0], (list, tuple)):
        return [0, epath(vl.KeyPath(q[0], P).keys)]
      return [0, epath(vl.KeyPath(list(q) if rng is None or rng.random() < 0.5 else tuple(q), P).keys)]
  except Exception as e:
    return escaped('arith-op-%d' % op, e, dict(kind='arith', p=list(p), q=list(q)))
  raise ValueError(op)

# ---- read-only observers applied in a given order to ONE KeyPath object ---------------------------------------------------
OBS = ['path_str(True)', 'path_str(False)', '.path', 'str', 'repr', 'format()', 'hash', '== str', '< KeyPath', '< str', 'depth',
       'parent', 'keys', '== KeyPath', '+', 'is_root']

def observe(P, o, q):
  """One observer on the object P; returns the answer as a wire tree. May raise."""
  vl, _ = py()
  K = vl.KeyPath
  if o == 0: return [0, estr(P.path_str(True))]
  if o == 1: return [0, estr(P.path_str(False))]
  if o == 2: return [0, estr(P.path)]
  if o == 3: return [0, estr(str(P))]
  if o == 4: return [0, estr(repr(P))]
  if o == 5: return [0, estr(P.format())]
  if o == 6: return [1, int(hash(P) == hash(K(list(P.keys))))]
  if o == 7: return [1, int(P == ref_path_str(q))]
  if o == 8: return [1, int(P < K(list(q)))]
  if o == 9: return [1, int(P < ref_path_str(q))]
  if o == 10: return [2, P.depth]
  if o == 11:
    try: return [3, epath(P.parent.keys)]
    except KeyError: return [4]
  if o == 12: return [3, epath(P.keys)]
  if o == 13: return [1, int(P == K(list(q)))]
  if o == 14: return [3, epath((P + K(list(q))).keys)]
  if o == 15: return [1, int(P.is_root)]
  raise ValueError(o)

def impl_observers(keys, obs):
  vl, _ = py()
  P = vl.KeyPath(list(keys))
  out = []
  for o, q in obs:
    try:
      out.append(observe(P, o, q))
    except Exception as e:
      out.append(escaped('observer ' + OBS[o], e, dict(kind='observers', keys=list(keys), obs=[[a, list(b)] for a, b in obs])))
  return out

def oracle_observers(keys, obs):
  """After the observers ran (in this order) on one object, every law must still hold on that object, and each observer
  must have answered what an untouched twin built from the same keys answers."""
  vl, _ = py()
  K = vl.KeyPath
  hits = []
  case = dict(kind='observers', keys=list(keys), obs=[[a, list(b)] for a, b in obs])
  first = OBS[obs[0][0]] if obs else 'nothing'
  def bad(law, msg): hits.append(('C10/observer-order/%s/first-%s' % (law, first), msg + ' (observers applied before: %s)' % [OBS[o] for o, _ in obs], case))
  try:
    P = K(list(keys))
    for i, (o, q) in enumerate(obs):
      got = observe(P, o, q)
      twin = observe(K(list(keys)), o, q)
      if got != twin:
        bad('answer-differs-from-untouched-twin', '%s answers differently on KeyPath(%r) than on a fresh equal path' % (OBS[o], keys)); break
    fresh = K(list(keys))
    if P != fresh or not (P == fresh): bad('eq-fresh', 'KeyPath(%r) != a fresh equal path' % (keys,))
    if hash(P) != hash(fresh): bad('hash-fresh', 'hash differs from the hash of a fresh equal path for %r' % (keys,))
    if all(key_ok(k) for k in keys):
      canon = ref_path_str(keys)
      if str(P) != canon or P.path != canon or repr(P) != canon or P.format() != canon: bad('printed-form', 'str/path/repr/format of KeyPath(%r) is %r, not %r' % (keys, str(P), canon))
      if not (P == canon): bad('eq-canonical-string', 'KeyPath(%r) == %r is False' % (keys, canon))
      if hash(P) != hash(canon): bad('hash-string', 'hash(KeyPath(%r)) != hash(%r)' % (keys, canon))
      back = K.parse(str(P))
      if not same_keys(back.keys, keys) or back != P: bad('round-trip', 'KeyPath.parse(str(p)).keys = %r for p.keys = %r' % (back.keys, keys))
      if {P: 1}.get(fresh) != 1 or {fresh: 1}.get(P) != 1: bad('dict-lookup', 'p and a fresh equal path do not find each other as dict keys')
    if P.path_str(True) != fresh.path_str(True) or P.path_str(False) != fresh.path_str(False): bad('path_str', 'path_str differs from a fresh equal path')
  except Exception as e:
    bad('raises-' + type(e).__name__, 'raised %s: %s' % (type(e).__name__, str(e)[:100]))
  return hits

def observer_sweep(rng, paths, n_random):
  """(a) every observer as the FIRST call on a fresh object, for every given path (the laws are checked afterwards, so this
  covers every ordered pair observer -> law); (b) every ordered pair of string-producing observers; (c) random sequences."""
  out = []
  others = [[], ['a'], ['a.b'], [0]]
  for p in paths:
    for o in range(len(OBS)):
      out.append((p, [(o, others[(o + len(p)) % len(others)] if o in (7, 8, 9, 13, 14) else [])]))
    for o1 in (0, 1, 2, 3, 4, 5, 6):
      for o2 in (0, 1, 2, 3, 4, 5, 6, 7):
        if o1 != o2: out.append((p, [(o1, []), (o2, list(p) if o2 == 7 else [])]))
  for _ in range(n_random):
    p = rng.choice(paths) if rng.random() < 0.5 else gen_path(rng, maxlen=4)
    n = rng.randint(1, 6)
    seq = []
    for _ in range(n):
      o = rng.randrange(len(OBS))
      q = (list(p) if rng.random() < 0.5 else gen_path(rng, maxlen=2)) if o in (7, 8, 9, 13, 14) else []
      seq.append((o, q))
    out.append((p, seq))
  return out

OBS_PATHS = [['a.b'], ['x', 'a.b'], ['a[0]', 'y'], ['[0]'], ['a', '.', 0], ['lr.decay', 'lr'], ['[a].[b]', -1], ['a'], ['a', 'b'], [0], ['0', 0],
             [], ['$'], ['é', 'a.b', 'é'], ['-1', '[-1]']]

def impl_set(ops, form_rng=None):
  vl, _ = py()
  K = vl.KeyPath
  regs = [vl.KeyPathSet(), vl.KeyPathSet(), vl.KeyPathSet()]
  outs = []
  crashed = False
  for code, r, r2, r3, p, fl in ops:
    try:
      P = K(list(p))
      if code in (0, 1, 2, 3, 4, 16) and form_rng is not None:
        P = arg_form(p, form_rng)
        if P is None: P = K()
      if code == 0: o = [0, int(regs[r].add(P, include_intermediate=bool(fl)))]
      elif code == 1: o = [0, int(regs[r].remove(P))]
      elif code == 2: o = [0, int(P in regs[r])]
      elif code == 3: o = [0, int(regs[r].has_prefix(P))]
      elif code == 4: regs[r].rebase(P); o = [1]
      elif code == 5: regs[r].clear(); o = [1]
      elif code == 6: regs[r].update(regs[r2]); o = [1]
      elif code == 7: regs[r].difference_update(regs[r2]); o = [1]
      elif code == 8: regs[r].intersection_update(regs[r2]); o = [1]
      elif code == 9: regs[r3] = regs[r].union(regs[r2]); o = [1]
      elif code == 10: regs[r3] = regs[r].difference(regs[r2]); o = [1]
      elif code == 11: regs[r3] = regs[r].intersection(regs[r2]); o = [1]
      elif code == 12: regs[r3] = regs[r].copy(); o = [1]
      elif code == 13: o = [0, int(regs[r] == regs[r2])]
      elif code == 14: o = [0, int(bool(regs[r]))]
      elif code == 15: o = [2, [epath(x.keys) for x in regs[r]]]
      elif code == 16:
        st = regs[r].subtree(P)
        o = [3] if st is None else [2, [epath(x.keys) for x in st]]
      elif code == 17: regs[r3] = P + regs[r]; o = [1]
      else: raise ValueError(code)
    except Exception as e:
      outs.append([-2]); crashed = True
      break
    outs.append(o)
  final = []
  if not crashed:
    for s in regs:
      try: final.append([[epath(x.keys) for x in s], int(bool(s))])
      except Exception: final.append([-2])
  return [outs, final], regs

def impl_lookup(p, v):
  vl, _ = py()
  try:
    return [0, epv(vl.KeyPath(list(p)).query(v))]
  except Exception as e:
    return eerr(e) if type(e) in ERR else escaped('query', e, _value_case(v))

def impl_exists(p, v):
  vl, _ = py()
  try:
    return [0, int(bool(vl.KeyPath(list(p)).exists(v)))]
  except Exception as e:
    return eerr(e) if type(e) in ERR else escaped('exists', e, _value_case(v))

@guarded('utils.traverse', lambda v, *a, **kw: _value_case(v))
def impl_traverse(v, root, stop_pre, stop_post):
  vl, hi = py()
  log = []
  def pre(p, x):
    log.append([0, epath(p.keys), epv(x)])
    return stop_pre is None or not same_keys(p.keys, stop_pre)
  def post(p, x):
    log.append([1, epath(p.keys), epv(x)])
    return stop_post is None or not same_keys(p.keys, stop_post)
  ok = hi.traverse(v, pre, post, vl.KeyPath(list(root)))
  return [log, int(bool(ok))]

def act_of(acts, keys):
  import pyglove as pg
  A = pg.TraverseAction
  for p, a in acts:
    if same_keys(p, keys):
      return [A.STOP, A.ENTER, A.CONTINUE][a]
  return A.ENTER

@guarded('pg.traverse', lambda v, *a, **kw: _value_case(v))
def impl_pg_traverse(v, pre_acts, post_acts, parents=None):
  import pyglove as pg
  log = []
  def pre(p, x, parent):
    log.append([0, epath(p.keys), epv(plain(x))])
    if parents is not None: parents.append((p.keys, x, parent))
    return act_of(pre_acts, p.keys)
  def post(p, x, parent):
    log.append([1, epath(p.keys), epv(plain(x))])
    return act_of(post_acts, p.keys)
  ok = pg.traverse(v, pre, post)
  return [log, int(bool(ok))]

def plain(x):
  """pg.Dict / pg.List -> dict / list (for printing)."""
  if isinstance(x, dict): return {k: plain(v) for k, v in x.items()}
  if isinstance(x, list): return [plain(v) for v in x]
  return x

def sel_fn(sel):
  kind = sel[0]
  if kind == 0:
    ps = sel[1]
    return lambda k, v: any(same_keys(k.keys, p) for p in ps)
  if kind == 1: return lambda k, v: isinstance(v, int) and not isinstance(v, bool)
  if kind == 2: return lambda k, v: isinstance(v, (dict, list)) and len(v) > 0
  if kind == 3: return lambda k, v: True
  if kind == 4: return lambda k, v: not (isinstance(v, (dict, list)) and len(v) > 0)
  raise ValueError(sel)

def esel(sel):
  return [0, [epath(p) for p in sel[1]]] if sel[0] == 0 else [sel[0]]

@guarded('pg.query', lambda v, *a, **kw: _value_case(v))
def impl_pg_query(v, sel, es):
  import pyglove as pg
  res = pg.query(v, custom_selector=sel_fn(sel), enter_selected=bool(es))
  return [[estr(k), epv(plain(x))] for k, x in res.items()]

@guarded('flatten', lambda fck, v: _value_case(v))
def impl_flatten(fck, v):
  _, hi = py()
  return epv(hi.flatten(copy.deepcopy(v), bool(fck)))

def impl_canon(sp, v):
  _, hi = py()
  try:
    return [0, epv(hi.canonicalize(copy.deepcopy(v), bool(sp)))]
  except Exception as e:
    return eerr(e)

def impl_canon_flatten(fck, sp, v):
  _, hi = py()
  try:
    return [0, epv(hi.canonicalize(hi.flatten(copy.deepcopy(v), bool(fck)), bool(sp)))]
  except Exception as e:
    return eerr(e) if type(e) in ERR else escaped('canonicalize(flatten)', e, _value_case(v))

def impl_merge_all(vs):
  _, hi = py()
  try:
    return [0, epv(hi.merge(copy.deepcopy(vs)))]
  except Exception as e:
    return eerr(e) if type(e) in ERR else escaped('merge', e, dict(kind='unencodable', shown=repr(vs)[:300]))

def impl_transform(v, root, sel, inplace):
  import pyglove as pg
  vl, hi = py()
  f = sel_fn(sel)
  try:
    out = hi.transform(copy.deepcopy(v), lambda p, x: pg.MISSING_VALUE if f(p, x) else x, vl.KeyPath(list(root)), inplace=bool(inplace))
    return [5] if pg.MISSING_VALUE == out else [0, epv(out)]
  except Exception as e:
    return escaped('transform', e, _value_case(v))

def impl_merge(d, s):
  _, hi = py()
  try:
    return [0, epv(hi.merge_tree(copy.deepcopy(d), copy.deepcopy(s)))]
  except Exception as e:
    return eerr(e)

# ---- generators ------------------------------------------------------------------------------------
INTS = list(range(-12, 13)) + [100, -100, 10 ** 12, -(10 ** 12), 255, 1000, 2 ** 64, -(2 ** 63) - 1, 99, 101]
PLAIN = ['+1', '1_0', ' 5', '１２', '٣１', 'a', 'b', '0', '7', '1', '-', 'é', '\U0001d4b3', ' ', "'", '"', '$', '²', '٣', '-1', '00', 'a b', '10', '15', '2', '-0', '٣5']

def gen_str(rng, ok_only=False):
  for _ in range(50):
    r = rng.random()
    if r < 0.30:
      s = rng.choice(PLAIN)
    elif r < 0.50:
      inner = ''.join(rng.choice(ALPHABET) for _ in range(rng.randint(0, 3)))
      s = rng.choice(['', 'a', '0', '-']) + '[' + inner + ']' + rng.choice(['', 'b', '.', '7'])
    elif r < 0.60:
      s = rng.choice(['.', '..', 'a.b', '.a', 'a.', '0.7', '-.', '[0]', '[-1]', '[a]', '[]', '[[]]', '[.]', 'a[0].b', '[²]'])
    elif r < 0.64:
      d = rng.randint(2, 5)                  # deep bracket nesting
      s = '[' * d + rng.choice(['', 'a', '0', '.', '-1']) + ']' * d + rng.choice(['', 'x'])
    elif r < 0.68:
      s = ''.join(rng.choice('ab0.[]-é') for _ in range(rng.choice([17, 33, 65, 130])))   # long keys
      if ok_only and not key_ok(s): s = s.replace('[', '(').replace(']', ')')
    else:
      s = ''.join(rng.choice(ALPHABET) for _ in range(rng.randint(0 if not ok_only else 1, 5)))
    if not ok_only or key_ok(s):
      return s
  return 'a'

def gen_key(rng, ok_only=False, p_int=0.35):
  if rng.random() < p_int:
    return rng.choice(INTS)
  return gen_str(rng, ok_only or rng.random() < 0.85)

def gen_path(rng, ok_only=False, maxlen=6):
  n = rng.choice([0, 1, 1, 2, 2, 3, 3, 4, 5, maxlen])
  n = min(n, maxlen)
  if maxlen >= 6 and rng.random() < 0.04:
    n = rng.choice([8, 9, 12, 17, 33])       # long paths
  return [gen_key(rng, ok_only) for _ in range(n)]

def ref_path_str(keys, preserve=True):
  """Printing of a path written independently of the library (used by generators only)."""
  out = []
  for i, k in enumerate(keys):
    if isinstance(k, str) and not (preserve and any(c in k for c in '.[]')):
      out.append(('.' if i else '') + k)
    else:
      out.append('[%s]' % (k,))
  return ''.join(out)

def gen_path_string(rng):
  r = rng.random()
  if r < 0.35:
    return ref_path_str(gen_path(rng), rng.random() < 0.8)
  if r < 0.70:
    s = list(ref_path_str(gen_path(rng)))
    for _ in range(rng.randint(1, 2)):
      k = rng.randrange(3)
      if k == 0 and s: del s[rng.randrange(len(s))]
      elif k == 1: s.insert(rng.randint(0, len(s)), rng.choice(ALPHABET))
      elif s: s[rng.randrange(len(s))] = rng.choice(ALPHABET)
    return ''.join(s)
  return ''.join(rng.choice(ALPHABET + ['[', ']', '.', '-', '0']) for _ in range(rng.randint(0, 10)))

SET_KEYS = ['a', 'b', '$', 0, 1, 'a.b', '0', -1, 'x']
def gen_set_ops(rng, allow_dollar=True):
  keys = [k for k in SET_KEYS if allow_dollar or k != '$']
  if rng.random() < 0.5:
    keys = [k for k in keys if k != '$']     # half of the sequences never meet the marker
  depths = [0, 1, 1, 2, 2, 3] if rng.random() < 0.8 else [2, 3, 4, 5, 6]
  pool = [[rng.choice(keys) for _ in range(rng.choice(depths))] for _ in range(rng.randint(3, 7))]
  if rng.random() < 0.3:                     # chains: every prefix of one long path
    long = [rng.choice(keys) for _ in range(rng.randint(3, 6))]
    pool += [long[:i] for i in range(len(long) + 1)]
  deep = rng.random() < 0.35
  if deep:                                   # many paths below one shared prefix, different tails, then binary operations
    base = [rng.choice(keys) for _ in range(rng.randint(2, 4))]
    pool = [base + [rng.choice(keys) for _ in range(rng.choice([0, 1, 1, 2, 3]))] for _ in range(rng.randint(4, 8))] + [base[:rng.randint(0, len(base))]]
  ops = []
  n = rng.randint(3, 14) if not deep else rng.randint(8, 18)
  for i in range(n):
    r, r2, r3 = rng.randrange(3), rng.randrange(3), rng.randrange(3)
    p = rng.choice(pool)
    x = rng.random()
    if deep and i < 6: x = x * 0.3           # first fill the registers
    elif deep: x = 0.3 + x * 0.7
    if x < 0.30: code = 0
    elif x < 0.40: code = 1
    elif x < 0.48: code = 2
    elif x < 0.52: code = 3
    elif x < 0.57: code = 4
    elif x < 0.58: code = 5
    else: code = rng.choice([6, 7, 8, 9, 10, 11, 12, 13, 14, 15, 16, 17])
    fl = 1 if (code == 0 and rng.random() < 0.2) else 0
    if code == 4 or code == 17:
      p = p[:2]
    ops.append([code, r, r2, r3, list(p), fl])
  return ops

def gen_leaf(rng):
  r = rng.random()
  if r < 0.15: return None
  if r < 0.55: return rng.choice([0, 1, 2, -3, 7, 42])
  if r < 0.85: return rng.choice(['', 'a', 'abc', 'b', '0', 'a.b', '[0]', 'é'])
  return rng.choice([[], {}])

def gen_value(rng, depth, int_keys=0.15):
  if depth <= 0 or rng.random() < 0.25:
    return gen_leaf(rng)
  wide = rng.random() < 0.06
  if rng.random() < 0.45:
    n = rng.choice([5, 8, 11, 12, 13, 21]) if wide else rng.randint(1, 3)
    return [gen_value(rng, depth - 1 if not wide else min(depth - 1, 1), int_keys) for _ in range(n)]
  d = {}
  r = rng.random()
  if r < int_keys / 2:                      # a perfect-range int-keyed dict (canonicalize turns it into a list)
    for i in rng.sample(range(3), rng.randint(1, 3)):
      pass
    n = rng.randint(1, 3) if rng.random() < 0.8 else rng.choice([10, 11, 12])
    order = list(range(n)); rng.shuffle(order)
    for i in order: d[i] = gen_value(rng, depth - 1, int_keys)
    return d
  if rng.random() < 0.08:                    # exactly the fields of the pg.Object class used by the symbolic variant
    return {'x': gen_value(rng, depth - 1, int_keys), 'y': gen_value(rng, depth - 1, int_keys)}
  for _ in range(rng.choice([5, 8, 12]) if wide else rng.randint(1, 3)):
    k = gen_key(rng, ok_only=True, p_int=int_keys)
    if isinstance(k, int) and abs(k) > 1000: k = 5
    d[k] = gen_value(rng, depth - 1 if not wide else min(depth - 1, 1), int_keys)
  if rng.random() < 0.15:
    add_decoy(rng, d)
  return d

def add_decoy(rng, d):
  """Puts into dict d a key with a delimiter next to the entries its split form would address, so that a
  traversal / lookup that splits the key lands on a different, existing node instead of merely failing."""
  a = rng.choice(['a', 'lr', 'x', '0', 'é'])
  b = rng.choice(['b', 'decay', '0', '-1'])
  form = rng.randrange(6)
  tag = rng.randint(100, 999)
  if form == 0:   items = [(a + '.' + b, tag), (a, {b: tag + 1})]
  elif form == 1: items = [(a + '[0]', tag), (a, [tag + 1, tag + 2])]
  elif form == 2: items = [('[1]', tag), (1, tag + 1)]
  elif form == 3: items = [(a + '.' + b + '.c', {'k': tag}), (a, {b: {'c': {'k': tag + 1}}})]
  elif form == 4: items = [(a + '[' + b + ']', [tag]), (a, {b: [tag + 1]})]
  else:           items = [('[' + a + '.' + b + ']', tag), (a + '.' + b, tag + 1), (a, {b: tag + 2})]
  if rng.random() < 0.5: items.reverse()
  for k, x in items:
    d[k] = x

def nodes_of(v, path=()):
  """Independent enumeration of (path, node) in pre-order."""
  out = [(list(path), v)]
  if isinstance(v, dict):
    for k, x in v.items(): out += nodes_of(x, path + (k,))
  elif isinstance(v, list):
    for i, x in enumerate(v): out += nodes_of(x, path + (i,))
  return out

def depth_of(v):
  if isinstance(v, dict) and v: return 1 + max(depth_of(x) for x in v.values())
  if isinstance(v, list) and v: return 1 + max(depth_of(x) for x in v)
  return 0

def gen_flat_dict(rng, depth=2):
  """Input for canonicalize: dicts whose keys are path strings (valid, conflicting or malformed)."""
  d = {}
  base = rng.choice(['a', 'b', 'a.b', 'x'])
  for _ in range(rng.randint(1, 4) if rng.random() < 0.85 else rng.randint(8, 14)):
    r = rng.random()
    if r < 0.5:
      k = base + rng.choice(['', '.c', '[0]', '[1]', '[2]', '.c.d', '[0].e', '[-1]', '[5]', '[x.y]', '.0', '[10]', '[9]', '[11]', '[3]', '[4]', '[1].e', '[10].e', '[2][0]', '[-2]'])
    elif r < 0.8:
      k = gen_path_string(rng)
    else:
      k = rng.choice([0, 1, 2, -1, 5])
    if depth > 0 and rng.random() < 0.3:
      v = gen_flat_dict(rng, depth - 1)
    elif rng.random() < 0.2:
      v = [gen_leaf(rng), gen_flat_dict(rng, 0)] if depth > 0 else [gen_leaf(rng)]
    else:
      v = gen_leaf(rng)
    d[k] = v
  if rng.random() < 0.2:                     # a list value and index keys addressing into it (merge into a list)
    d2 = {base: [gen_leaf(rng) for _ in range(rng.randint(0, 3))]}
    for _ in range(rng.randint(1, 3)):
      d2[base + '[%d]' % rng.choice([0, 1, 2, 3, 7, -1, -2, -4])] = gen_leaf(rng)
    if rng.random() < 0.5: d2.update(d)
    return d2
  return d

def has_perfect_int_dict(v):
  if isinstance(v, dict):
    if v and all(isinstance(k, int) for k in v) and sorted(v) == list(range(len(v))): return True
    return any(has_perfect_int_dict(x) for x in v.values())
  if isinstance(v, list):
    return any(has_perfect_int_dict(x) for x in v)
  return False

def keys_all_ok(v):
  if isinstance(v, dict):
    return all(key_ok(k) and keys_all_ok(x) for k, x in v.items())
  if isinstance(v, list):
    return all(keys_all_ok(x) for x in v)
  return True

def dpv(t):
  k = t[0]
  if k == 0: return None
  if k == 1: return t[1]
  if k == 2: return ''.join(chr(c) for c in t[1])
  if k == 3: return [dpv(x) for x in t[1]]
  if k == 4: return {dkey(kv[0]): dpv(kv[1]) for kv in t[1]}
  raise ValueError(t)

# ---- the direct oracle: the property text on the real objects ------------------------------------------
def key_kind(k):
  if isinstance(k, int): return 'int-key'
  if any(c in k for c in '.[]'): return 'delimiter-str-key'
  if k.lstrip('-').isdigit(): return 'digit-str-key'
  return 'plain-str-key'

def oracle_roundtrip(keys):
  """KeyPath.parse(str(p)) == p for key_ok keys."""
  vl, _ = py()
  hits = []
  if not all(key_ok(k) for k in keys): return hits
  p = vl.KeyPath(list(keys))
  try:
    q = vl.KeyPath.parse(str(p))
    ok = same_keys(q.keys, keys) and q == p
    got = q.keys
  except Exception as e:
    ok = False; got = '%s: %s' % (type(e).__name__, e)
  if not ok:
    # discriminator: the kind of the first key at which the round trip diverges
    i = 0
    if isinstance(got, list):
      while i < min(len(got), len(keys)) and type(got[i]) is type(keys[i]) and got[i] == keys[i]: i += 1
    kind = key_kind(keys[min(i, len(keys) - 1)]) if keys else 'empty'
    hits.append(('C10/roundtrip/parse-format/' + kind, 'KeyPath.parse(str(KeyPath(%r))) gives %r' % (keys, got), dict(kind='roundtrip', keys=keys)))
  return hits

def oracle_arith(p, q):
  vl, _ = py()
  K = vl.KeyPath
  hits = []
  def bad(law, msg): hits.append(('C10/arith/' + law, msg, dict(kind='arith', p=p, q=q)))
  try:
    P, Q = K(list(p)), K(list(q))
    s = P + Q
    if not same_keys(s.keys, list(p) + list(q)): bad('concat-keys', '(%r + %r).keys = %r' % (p, q, s.keys))
    if len(s) != len(p) + len(q): bad('concat-depth', 'depth')
    d = s - P
    if not same_keys(d.keys, q): bad('sub-after-add', '(p + q) - p = %r for p=%r q=%r' % (d.keys, p, q))
    if not s.is_relative_to(P): bad('relative-after-add', '(p + q).is_relative_to(p) is False for p=%r q=%r' % (p, q))
    if not same_keys((P - P).keys, []): bad('sub-self', 'p - p != root')
    pref = len(q) <= len(p) and same_keys(p[:len(q)], q)
    if P.is_relative_to(Q) != pref: bad('is-relative-to', '%r.is_relative_to(%r) = %r' % (p, q, P.is_relative_to(Q)))
    try:
      r = P - Q; sub_ok = True
    except ValueError:
      sub_ok = False
    if sub_ok != pref: bad('sub-defined-iff-prefix', '%r - %r %s' % (p, q, 'succeeds' if sub_ok else 'raises'))
    if sub_ok and not same_keys((Q + r).keys, p): bad('add-after-sub', 'q + (p - q) != p')
    if p:
      if not same_keys(P.parent.keys, p[:-1]): bad('parent', 'parent of %r is %r' % (p, P.parent.keys))
      if not (type(P.key) is type(p[-1]) and P.key == p[-1]): bad('key', 'key')
      if not same_keys((P.parent + K([P.key])).keys, p): bad('parent-plus-key', 'parent + key != p')
    else:
      try:
        P.parent; bad('parent-of-root', 'parent of root does not raise')
      except KeyError:
        pass
    if (P == Q) != same_keys(p, q): bad('eq', '%r == %r is %r' % (p, q, P == Q))
    if all(key_ok(k) for k in p) and all(key_ok(k) for k in q):
      if (str(P) == str(Q)) != same_keys(p, q): bad('format-injective', 'str(%r) == str(%r) = %r' % (p, q, str(P)))
      if same_keys(p, q) and hash(P) != hash(Q): bad('hash', 'hash')
  except Exception as e:
    bad('raises-' + type(e).__name__, 'arithmetic on %r, %r raised %s: %s' % (p, q, type(e).__name__, e))
  return hits

def pair_kind(a, b):
  """What kind of keys meet at the first position where two paths differ."""
  for x, y in zip(a, b):
    if not (type(x) is type(y) and x == y):
      ks = sorted([key_kind(x), key_kind(y)])
      return ks[0] + '-vs-' + ks[1]
  return 'prefix'

def oracle_order(a, b, c):
  vl, _ = py()
  K = vl.KeyPath
  hits = []
  def bad(law, kind, msg): hits.append(('C10/order/%s/%s' % (law, kind), msg, dict(kind='order', a=a, b=b, c=c)))
  try:
    A, B, C = K(list(a)), K(list(b)), K(list(c))
    if A < A or A > A or not (A <= A) or not (A >= A): bad('reflexivity', 'self', 'p < p or not p <= p for %r' % (a,))
    for (x, X), (y, Y) in (((a, A), (b, B)), ((b, B), (c, C)), ((a, A), (c, C))):
      k = pair_kind(x, y)
      lt, gt, le, ge = X < Y, X > Y, X <= Y, X >= Y
      if lt and (Y < X): bad('asymmetric', k, '%r < %r and %r < %r' % (x, y, y, x))
      if gt != (Y < X) or ge != (Y <= X): bad('converse', k, '> / >= are not the converses of < / <= on %r, %r' % (x, y))
      if le != (lt or not (Y < X)) or (le and ge and not same_keys(x, y)):
        bad('le-consistent', k, '%r <= %r is %r, >= is %r, < is %r, == is %r' % (x, y, le, ge, lt, X == Y))
      if not same_keys(x, y) and not lt and not (Y < X): bad('total', k, 'neither %r < %r nor the converse although the key sequences differ' % (x, y))
      if same_keys(x, y) and (lt or gt): bad('irreflexive', k, 'equal key sequences compare <')
      # consistent with the key sequences
      if len(x) < len(y) and same_keys(y[:len(x)], x) and not lt: bad('prefix-first', k, 'a proper prefix %r is not < %r' % (x, y))
      for u, v in zip(x, y):
        if type(u) is type(v) and u == v: continue
        if isinstance(u, int) and isinstance(v, int) and lt != (u < v): bad('ints-numeric', k, '%r vs %r' % (x, y))
        if isinstance(u, str) and isinstance(v, str) and lt != (u < v): bad('strs-by-code-point', k, '%r vs %r' % (x, y))
        break
    if A < B and B < C and not A < C:
      bad('transitive', '+'.join(sorted({pair_kind(a, b), pair_kind(b, c), pair_kind(a, c)})), 'KeyPath(%r) < KeyPath(%r) < KeyPath(%r) but not KeyPath(%r) < KeyPath(%r)' % (a, b, c, a, c))
    if A < B and B < C and C < A:
      bad('cycle', '+'.join(sorted({pair_kind(a, b), pair_kind(b, c), pair_kind(a, c)})), 'KeyPath(%r) < KeyPath(%r) < KeyPath(%r) < KeyPath(%r)' % (a, b, c, a))
  except Exception as e:
    bad('raises-' + type(e).__name__, 'any', 'comparison raised %s' % e)
  return hits

def container_kind(x):
  return 'dict' if isinstance(x, dict) else 'list' if isinstance(x, list) else type(x).__name__

def oracle_value(v, sym=False):
  """Traversal / lookup / query / flatten clauses on one nested value (plain containers; sym: converted to pg.Dict/pg.List)."""
  import pyglove as pg
  vl, hi = py()
  hits = []
  vt = epv(plain(v))
  def bad(sig, msg): hits.append((sig + ('/symbolic' if sym else ''), msg, dict(kind='value', value_tr=vt, sym=sym, shown=repr(plain(v))[:300])))
  expect = nodes_of(v)
  # utils.traverse visits every node exactly once, in pre- and post-order
  for name, fn in (('utils.traverse', None), ('pg.traverse', None)):
    pre_log, post_log = [], []
    try:
      if name == 'utils.traverse':
        ok = hi.traverse(v, lambda p, x: pre_log.append((p, x)) or True, lambda p, x: post_log.append((p, x)) or True)
      else:
        ok = pg.traverse(v, lambda p, x, par: pre_log.append((p, x, par)) or pg.TraverseAction.ENTER,
                         lambda p, x, par: post_log.append((p, x, par)) or pg.TraverseAction.ENTER)
    except Exception as e:
      bad('C10/traverse/raises/' + name, '%s raised %s: %s' % (name, type(e).__name__, e)); continue
    if not ok: bad('C10/traverse/returns-false/' + name, 'all visitors returned true but traverse returned False')
    paths = [tuple(ekey_h(k) for k in e[0].keys) for e in pre_log]
    if len(set(paths)) != len(paths): bad('C10/traverse/visits-twice/' + name, 'a path is reported twice')
    if len(pre_log) != len(expect) or any(not same_keys(e[0].keys, x[0]) or e[1] is not x[1] for e, x in zip(pre_log, expect)):
      bad('C10/traverse/not-every-node-once/' + name, '%d nodes, %d pre-order visits' % (len(expect), len(pre_log)))
    if sorted(map(repr, [e[0].keys for e in post_log])) != sorted(map(repr, [x[0] for x in expect])) or len(post_log) != len(expect):
      bad('C10/traverse/post-order-incomplete/' + name, '%d nodes, %d post-order visits' % (len(expect), len(post_log)))
    # the reported path, looked up from the root, returns that node
    for e in pre_log:
      p, x = e[0], e[1]
      try:
        got = p.query(v)
        if got is not x: bad('C10/lookup/reported-path-returns-other-node/' + name, 'path %r' % (p.keys,))
      except Exception as ex:
        par = vl.KeyPath(p.keys[:-1]).get(v) if p.keys else None
        bad('C10/lookup/reported-path-not-found/%s-%s' % (container_kind(plain(par)) if not sym else 'sym', key_kind(p.keys[-1]) if p.keys else 'root'),
            'traverse reports path %r for a node, but KeyPath(%r).query(root) raises %s: %s' % (p.keys, p.keys, type(ex).__name__, str(ex)[:80]))
        break
      if name == 'pg.traverse' and p.keys:
        if e[2] is not vl.KeyPath(p.keys[:-1]).get(v): bad('C10/traverse/parent-argument/' + name, 'parent passed to the visitor is not the container at the parent path')
  # symbolic containers: sym_path of every node is the reported path; rebind-by-function (get_rebind_dict addresses the
  # updates through printed paths) changes exactly the selected nodes
  if sym:
    try:
      wrong = []
      def chk(p, x, par):
        if isinstance(x, pg.Symbolic) and not same_keys(x.sym_path.keys, p.keys): wrong.append((p.keys, x.sym_path.keys))
        return pg.TraverseAction.ENTER
      pg.traverse(v, chk)
      if wrong: bad('C10/symbolic/sym-path-differs-from-traversal-path', 'node reported at %r has sym_path %r' % wrong[0])
      if keys_all_ok(plain(v)) and isinstance(v, pg.Symbolic):
        isint = lambda x: isinstance(x, int) and not isinstance(x, bool)
        def mapv(x):
          if isinstance(x, dict): return {k: mapv(y) for k, y in x.items()}
          if isinstance(x, list): return [mapv(y) for y in x]
          return x + 1000 if isint(x) else x
        v2 = v.clone(deep=True)
        v2.rebind(lambda k, x: x + 1000 if isint(x) else x, raise_on_no_change=False)
        if plain(v2) != mapv(plain(v)): bad('C10/rebind-by-function/result', 'rebind(fn) gives %r' % (plain(v2),))
    except Exception as e:
      bad('C10/rebind-by-function/raises-' + type(e).__name__, 'sym_path / rebind(fn) raised %s: %s' % (type(e).__name__, str(e)[:100]))
  # pg.query: selecting everything and entering returns every node under its printed path
  if keys_all_ok(plain(v)):
    try:
      res = pg.query(v, custom_selector=lambda k, x: True, enter_selected=True)
      if len(res) != len(expect): bad('C10/query/select-all-count', '%d nodes, %d results' % (len(expect), len(res)))
      for (ks, x) in expect:
        s = str(vl.KeyPath(list(ks)))
        if s not in res or res[s] is not x: bad('C10/query/select-all-misses-node', 'node at %r' % (ks,)); break
        if vl.KeyPath.parse(s).get(v, default_value=hits) is not x: bad('C10/query/printed-path-does-not-address-node', 'printed path %r' % s); break
      cont = lambda x: isinstance(x, (dict, list)) and len(x) > 0
      outer = pg.query(v, custom_selector=lambda k, x: cont(x) and len(k) > 0)
      exp_outer = [str(vl.KeyPath(list(ks))) for ks, x in expect if cont(x) and len(ks) == 1]
      if list(outer) != exp_outer: bad('C10/query/not-entering-selected', 'selected %r expected the outermost non-empty containers %r' % (list(outer), exp_outer))
      ints = pg.query(v, custom_selector=lambda k, x: isinstance(x, int) and not isinstance(x, bool))
      exp_ints = [str(vl.KeyPath(list(ks))) for ks, x in expect if isinstance(x, int) and not isinstance(x, bool)]
      if list(ints) != exp_ints: bad('C10/query/selector-result', 'selected %r expected %r' % (list(ints), exp_ints))
    except Exception as e:
      bad('C10/query/raises-' + type(e).__name__, 'pg.query raised %s' % e)
  # flatten / canonicalize are inverse (plain values; keys_all_ok; no perfect-range int-keyed dict, which is documented to become a list)
  if not sym and keys_all_ok(v) and not has_perfect_int_dict(v):
    try:
      flat = hi.flatten(copy.deepcopy(v), False)
      back = hi.canonicalize(copy.deepcopy(flat))
      if back != v or repr(type_shape(back)) != repr(type_shape(v)):
        bad('C10/flatten-canonicalize/not-inverse/' + flat_disc(v), 'canonicalize(flatten(v, False)) = %r for v = %r' % (back, v))
      if isinstance(v, (dict, list)) and v:
        leaves = [(ks, x) for ks, x in expect if ks and not (isinstance(x, (dict, list)) and x)]
        want = {vl.KeyPath(list(ks)).path: x for ks, x in leaves}
        if flat != want or list(flat) != list(want): bad('C10/flatten/keys-are-leaf-paths', 'flatten gives %r' % (flat,))
    except Exception as e:
      bad('C10/flatten-canonicalize/raises-%s/%s' % (type(e).__name__, flat_disc(v)), 'canonicalize(flatten(v, False)) raised %s: %s for v = %r' % (type(e).__name__, e, v))
  return hits

def ekey_h(k): return ('i', k) if isinstance(k, int) else ('s', k)

def type_shape(v):
  if isinstance(v, dict): return ('d', sorted((repr(ekey_h(k)), type_shape(x)) for k, x in v.items()))
  if isinstance(v, list): return ('l', [type_shape(x) for x in v])
  return (type(v).__name__, v)

def flat_disc(v):
  ks = set()
  def walk(x):
    if isinstance(x, dict):
      for k, y in x.items(): ks.add(key_kind(k)); walk(y)
    elif isinstance(x, list):
      ks.add('list')
      for y in x: walk(y)
  walk(v)
  return '+'.join(sorted(ks)) or 'leaf'

def to_sym(v):
  import pyglove as pg
  if isinstance(v, dict): return pg.Dict(v)
  if isinstance(v, list): return pg.List(v)
  return v

_NODE_CLS = []
def node_cls():
  import pyglove as pg
  if not _NODE_CLS:
    class C10Node(pg.Object):
      x: pg.typing.Any(default=None)
      y: pg.typing.Any(default=None)
    _NODE_CLS.append(C10Node)
  return _NODE_CLS[0]

def to_sym_obj(v):
  """Like to_sym, but a dict with exactly the keys x, y becomes a pg.Object with these two fields."""
  import pyglove as pg
  if isinstance(v, dict):
    if list(v) == ['x', 'y']:
      return node_cls()(x=to_sym_obj(v['x']), y=to_sym_obj(v['y']))
    return pg.Dict({k: to_sym_obj(x) for k, x in v.items()})
  if isinstance(v, list): return pg.List([to_sym_obj(x) for x in v])
  return v

def has_xy(v):
  if isinstance(v, dict): return list(v) == ['x', 'y'] or any(has_xy(x) for x in v.values())
  if isinstance(v, list): return any(has_xy(x) for x in v)
  return False

def oracle_objects(v):
  """Traversal / lookup / query clauses on a tree that contains pg.Object nodes (oracle only; not modelled)."""
  import pyglove as pg
  vl, _ = py()
  hits = []
  vt = epv(v)
  def bad(sig, msg): hits.append((sig, msg, dict(kind='objects', value_tr=vt, shown=repr(v)[:300])))
  try:
    sv = to_sym_obj(copy.deepcopy(v))
  except Exception:
    return hits
  def expect_nodes(x, path=()):
    out = [(list(path), x)]
    if isinstance(x, dict):
      for k, y in x.items(): out += expect_nodes(y, path + (k,))
    elif isinstance(x, list):
      for i, y in enumerate(x): out += expect_nodes(y, path + (i,))
    elif isinstance(x, pg.Object):
      for k, y in x.sym_items(): out += expect_nodes(y, path + (k,))
    return out
  try:
    expect = expect_nodes(sv)
    log = []
    ok = pg.traverse(sv, lambda p, x, par: log.append((p, x, par)) or pg.TraverseAction.ENTER)
    if not ok: bad('C10/traverse/returns-false/pg.traverse-objects', 'traverse returned False')
    if len(log) != len(expect) or any(not same_keys(e[0].keys, x[0]) or e[1] is not x[1] for e, x in zip(log, expect)):
      bad('C10/traverse/not-every-node-once/pg.traverse-objects', '%d nodes, %d visits' % (len(expect), len(log)))
    for p, x, par in log:
      try:
        if p.query(sv) is not x: bad('C10/lookup/reported-path-returns-other-node/pg.traverse-objects', 'path %r' % (p.keys,)); break
      except Exception as e:
        bad('C10/lookup/reported-path-not-found/object-%s' % (key_kind(p.keys[-1]) if p.keys else 'root'), 'path %r: %s' % (p.keys, e)); break
      if isinstance(x, pg.Symbolic) and not same_keys(x.sym_path.keys, p.keys):
        bad('C10/symbolic/sym-path-differs-from-traversal-path/objects', 'node reported at %r has sym_path %r' % (p.keys, x.sym_path.keys)); break
    if keys_all_ok(v):
      res = pg.query(sv, custom_selector=lambda k, x: True, enter_selected=True)
      if len(res) != len(expect): bad('C10/query/select-all-count/objects', '%d nodes, %d results' % (len(expect), len(res)))
      for ks, x in expect:
        s = str(vl.KeyPath(list(ks)))
        if s not in res or res[s] is not x: bad('C10/query/select-all-misses-node/objects', 'node at %r' % (ks,)); break
  except Exception as e:
    bad('C10/traverse/raises/objects-' + type(e).__name__, 'raised %s: %s' % (type(e).__name__, str(e)[:100]))
  return hits

OPN = ['add', 'remove', 'contains', 'has_prefix', 'rebase', 'clear', 'update', 'difference_update', 'intersection_update',
       'union', 'difference', 'intersection', 'copy', 'eq', 'bool', 'iter', 'subtree', 'keypath_add']

def _set_run(ops):
  """Runs the op sequence on real KeyPathSets next to Python sets of key tuples. Returns None or (opname, law, message)."""
  vl, _ = py()
  K = vl.KeyPath
  regs = [vl.KeyPathSet(), vl.KeyPathSet(), vl.KeyPathSet()]
  ref = [set(), set(), set()]
  T = lambda keys: tuple(ekey_h(k) for k in keys)
  def state(r):
    lst = [T(x.keys) for x in regs[r]]
    if len(set(lst)) != len(lst): return 'iteration yields a path twice'
    if set(lst) != ref[r]: return 'members are %r, a set would hold %r' % (sorted(set(lst), key=repr), sorted(ref[r], key=repr))
    if bool(regs[r]) != bool(ref[r]): return 'bool() is %r but there are %d members' % (bool(regs[r]), len(ref[r]))
    for m in ref[r]:
      if K([k for _, k in m]) not in regs[r]: return 'a listed member is not `in` the set'
    return None
  for i, (code, r, r2, r3, p, fl) in enumerate(ops):
    name = OPN[code]
    tp = T(p)
    try:
      P = K(list(p))
      touched = [r]
      if code == 0:
        u = regs[r].add(P, include_intermediate=bool(fl))
        if not fl:
          if bool(u) != (tp not in ref[r]): return (name, 'return-value', 'add returned %r' % u)
          ref[r] = ref[r] | {tp}
        else:
          now = {T(x.keys) for x in regs[r]}
          prefixes = {tp[:j] for j in range(len(tp) + 1)}
          closed = all(m[:j] in ref[r] for m in ref[r] for j in range(len(m)))
          if not (ref[r] | {tp}) <= now or not now <= (ref[r] | prefixes) or (closed and now != ref[r] | prefixes):
            return (name, 'include-intermediate', 'after add(%r, include_intermediate=True): %r' % (p, sorted(now, key=repr)))
          ref[r] = now
      elif code == 1:
        u = regs[r].remove(P)
        if bool(u) != (tp in ref[r]): return (name, 'return-value', 'remove returned %r' % u)
        ref[r] = ref[r] - {tp}
      elif code == 2:
        if (P in regs[r]) != (tp in ref[r]): return (name, 'membership', '%r in set is %r' % (p, P in regs[r]))
      elif code == 3:
        if p or ref[r]:
          if bool(regs[r].has_prefix(P)) != any(m[:len(tp)] == tp for m in ref[r]): return (name, 'prefix', 'has_prefix(%r)' % (p,))
      elif code == 4: regs[r].rebase(P); ref[r] = {tp + m for m in ref[r]}
      elif code == 5: regs[r].clear(); ref[r] = set()
      elif code == 6: regs[r].update(regs[r2]); ref[r] = ref[r] | ref[r2]
      elif code == 7: regs[r].difference_update(regs[r2]); ref[r] = ref[r] - ref[r2]
      elif code == 8: regs[r].intersection_update(regs[r2]); ref[r] = ref[r] & ref[r2]
      elif code == 9: regs[r3] = regs[r].union(regs[r2]); ref[r3] = ref[r] | ref[r2]; touched = [r, r2, r3]
      elif code == 10: regs[r3] = regs[r].difference(regs[r2]); ref[r3] = ref[r] - ref[r2]; touched = [r, r2, r3]
      elif code == 11: regs[r3] = regs[r].intersection(regs[r2]); ref[r3] = ref[r] & ref[r2]; touched = [r, r2, r3]
      elif code == 12: regs[r3] = regs[r].copy(); ref[r3] = set(ref[r]); touched = [r, r3]
      elif code == 13:
        if (regs[r] == regs[r2]) != (ref[r] == ref[r2]) or (regs[r] != regs[r2]) != (ref[r] != ref[r2]):
          return (name, 'equality', '== is %r but the member sets are %s' % (regs[r] == regs[r2], 'equal' if ref[r] == ref[r2] else 'different'))
      elif code == 14: pass
      elif code == 15: pass
      elif code == 16:
        st = regs[r].subtree(P)
        exp = {m[len(tp):] for m in ref[r] if m[:len(tp)] == tp}
        if st is None:
          if exp: return (name, 'subtree', 'subtree(%r) is None' % (p,))
        else:
          got = {T(x.keys) for x in st}
          if got != exp: return (name, 'subtree', 'subtree(%r) = %r' % (p, sorted(got, key=repr)))
      elif code == 17: regs[r3] = P + regs[r]; ref[r3] = {tp + m for m in ref[r]}; touched = [r, r3]
      for t in (0, 1, 2):
        s = state(t)
        if s: return (name, 'set-semantics', 'after op %d %s%r: %s' % (i, name, tuple(p) if code in (0, 1, 4, 17) else (), s))
    except Exception as e:
      return (name, 'raises-' + type(e).__name__, 'op %d %s raised %s: %s' % (i, name, type(e).__name__, str(e)[:80]))
  return None

def oracle_set(ops):
  bad = _set_run(ops)
  if bad is None: return []
  name, law, msg = bad
  has_dollar = any('$' in op[4] for op in ops)
  if has_dollar:
    sub = [[c, r, r2, r3, ['€' if k == '$' else k for k in p], fl] for c, r, r2, r3, p, fl in ops]
    if _set_run(sub) is None:
      return [('C10/set/dollar-key-is-the-terminal-marker', "a path key '$' is taken for the trie's end-of-path marker: " + msg, dict(kind='set', ops=ops))]
  return [('C10/set/%s/%s' % (name, law), msg, dict(kind='set', ops=ops))]

DOLLAR_WITNESS = [[0, 0, 0, 0, ['$'], 0], [15, 0, 0, 0, [], 0]]

def detect_dollar_quirk():
  """Quirk flag of the model: replay the witness of the open finding on the implementation."""
  return bool(oracle_set(DOLLAR_WITNESS))

def check_digit_table(ctx):
  dec, dig = [], []
  for cp in range(0x110000):
    c = chr(cp)
    if c.isdigit():
      if unicodedata.decimal(c, None) is not None:
        if unicodedata.decimal(c) == 0: dec.append(cp)
      else:
        dig.append(cp)
  rs = []
  for cp in dig:
    if rs and rs[-1][1] == cp - 1: rs[-1][1] = cp
    else: rs.append([cp, cp])
  import re
  from harness.lib.common import COQ
  txt = open(os.path.join(COQ, 'Model', 'KeyPathDigits.v')).read()
  body = txt.split('Definition dec_starts', 1)[1]
  a, b = body.split('Definition digit_only', 1)
  coq_dec = [int(x) for x in re.findall(r'\d+', a.split(':=', 1)[1])]
  coq_dig = [[int(x), int(y)] for x, y in re.findall(r'\((\d+),\s*(\d+)\)', b)]
  # every decimal run must be 10 long with int() agreeing
  ok = coq_dec == dec and coq_dig == rs and all(int(chr(s + i)) == i for s in dec for i in range(10))
  if not ok:
    ctx.broken.append(dict(kind='instance', name='unicode_digit_table', detail='Model/KeyPathDigits.v differs from str.isdigit/int of this interpreter (unicode %s)' % unicodedata.unidata_version))
  ctx.extra['unicode_digit_table'] = dict(unicode=unicodedata.unidata_version, decimal_runs=len(dec), digit_only_ranges=len(rs), agrees=ok)
  return ok

# ---- corpus: minimised cases kept from earlier failures (always run first) ---------------------------------
CORPUS_ORDER = [([2], [10], ['15']), ([0], ['0'], [1]), (['a', 1], ['a', 'b'], ['a', 10]), ([10], ['9'], [9])]
CORPUS_VALUES = [{'lr.decay': 1, 'lr': {'decay': 2}}, {'cfg': {'opt[0]': 1, 'opt': [2]}}, {'[0]': 'a', 0: 'b'}, [{'a.b': {'c': 1}, 'a': {'b': {'c': 2}}}],
                 {1: 'a'}, {5: {7: 'x'}}, {'a': {3: [1, {2: 'y'}]}}, {'a': [{'c': [1, 2]}, {'d': {'g': 3}}], 'b.c': 'foo', '[0]': {}, '0': []},
                 {'$': {'x.y': [[], {}]}}, [[1, 2], [3]], {'a': {'0': 1, '-1': 2}}, {-1: 'a', 'k': 0}]
CORPUS_SETS = [DOLLAR_WITNESS,
               [[4, 0, 0, 0, ['a'], 0], [14, 0, 0, 0, [], 0], [13, 0, 1, 0, [], 0]],
               [[0, 0, 0, 0, [], 0], [0, 0, 0, 0, ['$', 'x'], 0]],
               [[0, 0, 0, 0, ['a', 'b'], 0], [0, 0, 0, 0, ['a'], 0], [1, 0, 0, 0, ['a', 'b'], 0], [15, 0, 0, 0, [], 0], [1, 0, 0, 0, ['a'], 0], [14, 0, 0, 0, [], 0]],
               [[0, 0, 0, 0, ['a', 'b'], 1], [0, 1, 0, 0, ['a'], 0], [7, 0, 1, 0, [], 0], [8, 0, 1, 0, [], 0], [15, 0, 0, 0, [], 0]]]

# ---- systematic sweeps (families random generation rarely isolates) -----------------------------------------------------
SWEEP_KEYS = ['a', '0', '00', '-1', '-', '$', ' ', 'é', '\U0001d4b3', '²', '٣', '１', 'a b', "'", '"', '+1', '1_0',
              '.', '..', 'a.b', '.a', 'a.', '0.7', '[0]', '[-1]', '[a]', '[]', '[[]]', '[.]', 'a[0]', 'a[0].b', '[a].[b]', '[²]',
              0, 1, -1, 10, -12, 2 ** 64]
NEIGHBOURS = ['n', 'x.y', '[z]', 7]

def sweep_paths():
  """every key shape x position (alone / first / middle / last) x neighbour kind"""
  out = []
  for k in SWEEP_KEYS:
    out.append([k])
    for n1 in NEIGHBOURS:
      out.append([k, n1]); out.append([n1, k])
      for n2 in NEIGHBOURS:
        out.append([n1, k, n2])
  return out

def sweep_values():
  """every key shape as a dict key x context (root dict / dict in a list / below a delimiter key / next to the entries its
  split form would address) x child kind (leaf / list / dict)"""
  out = []
  for k in SWEEP_KEYS:
    if isinstance(k, int) and abs(k) > 1000: continue
    for child in (5, [6, [7]], {'c': 8, 'd.e': {}}):
      child = copy.deepcopy(child)
      out.append({k: child})
      out.append([1, {k: child, 'z': 2}])
      out.append({'p.q': {k: child}, 'p': {'q': {'other': 3}}})
      if isinstance(k, str):
        # decoys: what the key would address if it were parsed as a path
        try:
          parts = []
          d = 0; cur = ''
          for ch in k:
            if ch == '[':
              if d == 0 and cur: parts.append(cur); cur = ''
              elif d > 0: cur += ch
              d += 1
            elif ch == ']':
              d -= 1
              if d == 0: parts.append(int(cur) if cur.lstrip('-').isdigit() and cur.lstrip('-').isascii() else cur); cur = ''
              elif d > 0: cur += ch
              else: raise ValueError
            elif ch == '.' and d == 0:
              if cur: parts.append(cur); cur = ''
            else: cur += ch
          if cur: parts.append(cur)
          if d == 0 and parts and parts != [k]:
            decoy = 99
            for part in reversed(parts[1:]):
              decoy = {part: decoy} if isinstance(part, str) else ([0] * part + [decoy] if 0 <= part < 4 else {part: decoy})
            out.append({k: child, parts[0]: decoy})
            out.append({parts[0]: copy.deepcopy(decoy), k: copy.deepcopy(child)})
        except ValueError:
          pass
  return out

def sweep_set_programs():
  """(a) aliasing: after every binary / copying operation mutate the result and look at the operands, and the converse;
  (b) the same set of paths added in two different orders gives equal sets."""
  # shared prefixes, and on each side a branch the other side lacks entirely and that is several keys deep
  A = [['a', 'b', 'c'], ['a', 'b'], ['a', 'x', 0], [], [1, 'a.b'], ['u', 'v', 'w'], ['u', 'v', 'w', 't']]
  B = [['a', 'b', 'd'], ['a', 'b', 'c', 'e'], ['a'], [1, 'a.b', 'z'], ['q'], ['n', 'm', 'k'], ['n', 'm', 'k', 'j'], ['a', 'y', 'z', 'w']]
  muts = [['a', 'b', 'c', 'new'], ['a', 'b'], ['a', 'b', 'd'], [], ['n', 'm', 'new'], ['n', 'm', 'k'], ['u', 'v', 'new'], ['u', 'v', 'w'],
          ['a', 'y', 'z', 'new'], ['a', 'y', 'z', 'w']]
  progs = []
  fill = [[0, 0, 0, 0, p, 0] for p in A] + [[0, 1, 0, 0, p, 0] for p in B]
  for code in (6, 7, 8, 9, 10, 11, 12, 17):
   for (x, y) in ((0, 1), (1, 0)):
    for m in muts:
      for target in (0, 1, 2):
        op = [code, x, y, 2, ['r'] if code == 17 else [], 0]
        progs.append(fill + [op, [0, target, 0, 0, m, 0], [15, 0, 0, 0, [], 0], [15, 1, 0, 0, [], 0], [15, 2, 0, 0, [], 0],
                             [1, target, 0, 0, m, 0], [1, (target + 1) % 3, 0, 0, ['a', 'b', 'c'], 0], [13, 0, 2, 0, [], 0], [13, 1, 2, 0, [], 0]])
  import itertools
  paths = [['a', 'b'], ['a'], ['a', 'b', 0], ['a.b'], [0, 'a'], []]
  for perm in list(itertools.permutations(range(len(paths))))[::37]:
    progs.append([[0, 0, 0, 0, p, 0] for p in paths] + [[0, 1, 0, 0, paths[i], 0] for i in perm] +
                 [[13, 0, 1, 0, [], 0], [7, 0, 1, 0, [], 0], [14, 0, 0, 0, [], 0], [8, 1, 1, 0, [], 0], [15, 1, 0, 0, [], 0]])
  return progs

def nontrivial_keys(keys):
  return any((isinstance(k, int) and (k < 0 or k > 9)) or (isinstance(k, str) and (not k.isascii() or any(c in k for c in '.[]-0123456789'))) for k in keys)

GENERATED = {'Gen/KeyPathSrc.v': keypath_src.translate, 'Gen/KeyPathSetSrc.v': keypathset_src.translate}

def run(ctx):
  vl, hi = py()
  ctx.regen('Gen/KeyPathSrc.v', keypath_src.translate)
  ctx.regen('Gen/KeyPathSetSrc.v', keypathset_src.translate)
  K = vl.KeyPath
  del ESCAPED[:]
  tab_ok = check_digit_table(ctx)
  ctx.build()
  if not tab_ok and ctx.discharged:
    ctx.discharged -= 1
  dollar = detect_dollar_quirk()
  ctx.extra['quirk_flags'] = dict(q_dollar=dollar)
  ctx.log('quirk flags from witness replay: q_dollar=%s' % dollar)
  rng = ctx.rng
  trees, impls, descrs = [], [], []
  sampled = set()
  def add(tree, out, kind, nontrivial, descr):
    trees.append(tree); impls.append(out); descrs.append(descr)
    smp = None
    if nontrivial and kind not in sampled and kind in ('roundtrip', 'parse', 'set', 'canonicalize(flatten)', 'pg.query', 'arith') and rng.random() < 0.05:
      sampled.add(kind); smp = dict(descr, implementation=trlib.to_line(out))
    ctx.count(trlib.to_line(tree), nontrivial=nontrivial, kind=kind, sample=smp)
  oracle_jobs = []    # (fn, args)

  # (A) format / round trip on key lists
  paths = [list(a) for tr3 in CORPUS_ORDER for a in tr3] + sweep_paths()
  ctx.extra['systematic_sweeps'] = dict(key_shapes=len(SWEEP_KEYS), path_contexts=len(sweep_paths()), value_contexts=len(sweep_values()), set_programs=len(sweep_set_programs()))
  n = len(paths) + ctx.scale(1500, 25000)
  while len(paths) < n:
    paths.append(gen_path(rng))
  seen_fmt = {}
  for p in paths:
    ok = all(key_ok(k) for k in p)
    for k in p: ctx.hist('key_kinds', key_kind(k) + ('' if key_ok(k) else ' (not key_ok)'))
    ctx.hist('path_lengths', len(p))
    preserve = 1 if rng.random() < 0.8 else 0
    add([0, preserve, epath(p)], impl_format(p, preserve), 'format', nontrivial_keys(p), dict(op='path_str', keys=p, preserve_complex_keys=bool(preserve)))
    add([2, epath(p)], impl_roundtrip(p), 'roundtrip', nontrivial_keys(p), dict(op='parse(str(p))', keys=p, key_ok=ok))
    oracle_jobs.append((oracle_roundtrip, (p,)))
    if ok:
      try: s = K(list(p)).path
      except Exception: continue            # already recorded by impl_format / impl_roundtrip
      if s in seen_fmt and not same_keys(seen_fmt[s], p):
        ctx.hit('C10/injective/format', 'two different key lists print the same: %r and %r -> %r' % (seen_fmt[s], p, s), dict(kind='arith', p=seen_fmt[s], q=p))
      seen_fmt[s] = p
  # (B) parse on arbitrary strings
  for _ in range(ctx.scale(1500, 25000)):
    s = gen_path_string(rng)
    out = impl_parse(s)
    ctx.hist('parse_outcomes', ['keys', 'error:close', 'error:open', 'error:int'][0 if out[0] == 0 else 1 + out[1]] if out[0] == 0 or out[1] < 3 else 'other')
    add([1, estr(s)], out, 'parse', out[0] == 1 or any(c in s for c in '[]'), dict(op='parse', string=s))
  # (B') exhaustive small scope: every string over the state-machine alphabet up to a length, every key list of length <= 2 over a key set
  import itertools
  SM = ['.', '[', ']', '-', '0', 'a', '²']
  maxlen = ctx.scale(4, 6)
  n_ex = 0
  for n in range(maxlen + 1):
    for tup in itertools.product(SM, repeat=n):
      s = ''.join(tup)
      add([1, estr(s)], impl_parse(s), 'parse(exhaustive)', n >= 2, dict(op='parse', string=s))
      n_ex += 1
  KS = ['a', '0', '-', '-1', '.', 'a.b', '[0]', '[a]', '[]', '[[]]', 'a[0]', '²', '$', ' ', 'é', 0, 1, -1, 10, -12]
  n_kl = 0
  for n in range(3):
    for tup in itertools.product(KS, repeat=n):
      p = list(tup)
      add([2, epath(p)], impl_roundtrip(p), 'roundtrip(exhaustive)', n >= 1, dict(op='parse(str(p))', keys=p))
      oracle_jobs.append((oracle_roundtrip, (p,)))
      n_kl += 1
  ctx.extra['exhaustive_small_scope'] = dict(exhaustive=True, parse_strings=n_ex, alphabet=''.join(SM), max_length=maxlen,
                                             key_lists=n_kl, key_set=[repr(k) for k in KS], max_keys=2)
  # (C) arithmetic / comparison on pairs, ordering laws on triples
  triples = [tuple(list(x) for x in t) for t in CORPUS_ORDER]
  for _ in range(ctx.scale(500, 8000)):
    a = gen_path(rng, maxlen=3)
    r = rng.random()
    b = a + gen_path(rng, maxlen=2) if r < 0.3 else a[:rng.randint(0, len(a))] + gen_path(rng, maxlen=2) if r < 0.6 else gen_path(rng, maxlen=3)
    c = gen_path(rng, maxlen=3) if rng.random() < 0.5 else b[:rng.randint(0, len(b))] + gen_path(rng, maxlen=1)
    triples.append((a, b, c))
  for a, b, c in triples:
    for (p, q) in ((a, b), (b, c), (c, a)):
      for op in range(18):
        add([3, op, epath(p), epath(q)], impl_arith(op, p, q, rng), 'arith', nontrivial_keys(p + q) or op in (1, 4, 5, 6, 7), dict(op='arith', code=op, p=p, q=q))
      oracle_jobs.append((oracle_arith, (p, q)))
    ctx.hist('order_pair_kinds', pair_kind(a, b))
    oracle_jobs.append((oracle_order, (a, b, c)))
  # (C') observer order: read-only calls in a given order on one object, then every law on that object
  for pth, seq in observer_sweep(rng, OBS_PATHS, ctx.scale(600, 8000)):
    for o, _ in seq: ctx.hist('observers', OBS[o])
    add([6, epath(pth), [[o, epath(q)] for o, q in seq]], impl_observers(pth, seq), 'observers', nontrivial_keys(pth) or len(seq) >= 2,
        dict(op='observers on one KeyPath', keys=pth, observers=[OBS[o] for o, _ in seq]))
    oracle_jobs.append((oracle_observers, (pth, seq)))
  # (D) KeyPathSet op sequences
  seqs = [s for s in CORPUS_SETS] + sweep_set_programs()
  for _ in range(ctx.scale(1500, 20000)):
    seqs.append(gen_set_ops(rng))
  for ops in seqs:
    out, _ = impl_set(ops, rng)
    for o in ops: ctx.hist('set_ops', OPN[o[0]])
    ctx.hist('set_outcome', 'raises' if (out[0] and out[0][-1] == [-2]) else 'ok')
    add([5, int(dollar), [[c, r, r2, r3, epath(p), fl] for c, r, r2, r3, p, fl in ops]], out, 'set', len(ops) >= 3, dict(op='KeyPathSet ops', ops=ops))
    oracle_jobs.append((oracle_set, (ops,)))
  # (E) nested values: lookup, traverse, pg.traverse, pg.query, flatten, canonicalize
  values = list(CORPUS_VALUES) + sweep_values()
  for _ in range(ctx.scale(450, 6000)):
    v = gen_value(rng, rng.choice([1, 2, 2, 3, 3, 4]), int_keys=rng.choice([0.0, 0.15, 0.4]))
    for _ in range(3):                       # few bare leaves at the root
      if isinstance(v, (dict, list)) and v: break
      if rng.random() < 0.15: break
      v = gen_value(rng, rng.choice([2, 3, 4]), int_keys=rng.choice([0.0, 0.15, 0.4]))
    values.append(v)
  for v in values:
    nt = depth_of(v) >= 2
    ctx.hist('value_depth', depth_of(v))
    nodes = nodes_of(v)
    ctx.hist('value_nodes', min(len(nodes), 20))
    vt = epv(v)
    # lookup: a real node path, and a perturbed one
    for _ in range(2):
      p = list(rng.choice(nodes)[0])
      if rng.random() < 0.5:
        m = rng.random()
        if m < 0.4 and p: p[rng.randrange(len(p))] = gen_key(rng, p_int=0.5)
        elif m < 0.7: p = p + [gen_key(rng, p_int=0.5)]
        elif p and isinstance(p[-1], int): p[-1] = rng.choice([-1, -2, -5, 3, p[-1] + 1])
        else: p = p + [rng.choice([0, -1, 'a'])]
      out = impl_lookup(p, v)
      ctx.hist('lookup_outcomes', 'value' if out[0] == 0 else ['KeyError', 'ValueError', 'IndexError', 'TypeError'][out[1]] if out[1] < 4 else 'other')
      add([20, epath(p), vt], out, 'lookup', nt or out[0] == 1, dict(op='query', path=p, value=repr(v)[:200]))
      add([28, epath(p), vt], impl_exists(p, v), 'exists', nt or out[0] == 1, dict(op='exists', path=p, value=repr(v)[:200]))
    root = gen_path(rng, maxlen=2) if rng.random() < 0.3 else []
    sp = root + list(rng.choice(nodes)[0]) if rng.random() < 0.4 else None
    so = root + list(rng.choice(nodes)[0]) if rng.random() < 0.3 else None
    add([21, vt, epath(root), trlib.opt(sp, epath), trlib.opt(so, epath)], impl_traverse(v, root, sp, so), 'traverse', nt,
        dict(op='utils.traverse', value=repr(v)[:200], root=root, stop_pre=sp, stop_post=so))
    pa = [(list(rng.choice(nodes)[0]), rng.randrange(3)) for _ in range(rng.randint(0, 3))]
    pb = [(list(rng.choice(nodes)[0]), rng.randrange(3)) for _ in range(rng.randint(0, 2))]
    eacts = lambda acts: [[epath(p), a] for p, a in acts]
    out_plain = impl_pg_traverse(v, pa, pb)
    add([22, vt, eacts(pa), eacts(pb)], out_plain, 'pg.traverse', nt, dict(op='pg.traverse', value=repr(v)[:200], pre_actions=pa, post_actions=pb))
    sel = rng.choice([(0, [list(rng.choice(nodes)[0]) for _ in range(rng.randint(1, 3))]), (1,), (2,), (3,), (4,)])
    es = rng.randrange(2)
    add([23, vt, esel(sel), es], impl_pg_query(v, sel, es), 'pg.query', nt, dict(op='pg.query', value=repr(v)[:200], selector=sel, enter_selected=bool(es)))
    # the same through pg.Dict / pg.List: must produce the same log and results
    try:
      sv = to_sym(copy.deepcopy(v))
      if plain(sv) != v: raise ValueError('conversion changed the value')
    except Exception as e:     # pg.Dict / pg.List construction is another property's business (C01/C02); counted, not judged here
      sv = None
      ctx.hist('symbolic_conversion', 'failed: %s' % type(e).__name__)
    if sv is not None:
      ctx.hist('symbolic_conversion', 'ok')
      add([22, vt, eacts(pa), eacts(pb)], impl_pg_traverse(sv, pa, pb), 'pg.traverse(symbolic)', nt, dict(op='pg.traverse on pg.Dict/pg.List', value=repr(v)[:200], pre_actions=pa, post_actions=pb))
      add([23, vt, esel(sel), es], impl_pg_query(sv, sel, es), 'pg.query(symbolic)', nt, dict(op='pg.query on pg.Dict/pg.List', value=repr(v)[:200], selector=sel, enter_selected=bool(es)))
    fck = 1 if rng.random() < 0.3 else 0
    add([24, fck, vt], impl_flatten(fck, v), 'flatten', nt, dict(op='flatten', flatten_complex_keys=bool(fck), value=repr(v)[:200]))
    sparse = 1 if rng.random() < 0.8 else 0
    add([26, 0, sparse, vt], impl_canon_flatten(0, sparse, v), 'canonicalize(flatten)', nt, dict(op='canonicalize(flatten(v, False))', sparse_list_as_dict=bool(sparse), value=repr(v)[:200]))
    oracle_jobs.append((oracle_value, (v, False)))
    if sv is not None: oracle_jobs.append((oracle_value, (sv, True)))
    if sv is not None and has_xy(v):
      oracle_jobs.append((oracle_objects, (v,))); ctx.hist('object_trees', 'with pg.Object nodes')
  # (F) canonicalize on path-keyed dicts (valid, conflicting, malformed), merge_tree
  for _ in range(ctx.scale(500, 8000)):
    d = gen_flat_dict(rng)
    sparse = 1 if rng.random() < 0.7 else 0
    out = impl_canon(sparse, d)
    ctx.hist('canonicalize_outcomes', 'value' if out[0] == 0 else ['KeyError', 'ValueError', 'IndexError', 'TypeError'][out[1]] if out[1] < 4 else 'other')
    add([25, sparse, epv(d)], out, 'canonicalize', True, dict(op='canonicalize', sparse_list_as_dict=bool(sparse), value=repr(d)[:200]))
  for _ in range(ctx.scale(300, 4000)):
    a, b = gen_value(rng, 3, 0.3), gen_value(rng, 3, 0.3)
    if rng.random() < 0.35:                  # a dict of (possibly negative / out of range / sparse) indices merged into a list
      a = [gen_leaf(rng) for _ in range(rng.randint(0, 4))]
      b = {rng.choice([0, 1, 2, 3, 5, 9, -1, -2, -5, 10]): gen_value(rng, 1, 0.3) for _ in range(rng.randint(1, 4))}
      if rng.random() < 0.3: a, b = {'k': a, 'z': 1}, {'k': b}
    add([27, 0, epv(a), epv(b)], impl_merge(a, b), 'merge_tree', depth_of(a) >= 1 and depth_of(b) >= 1, dict(op='merge_tree', dest=repr(a)[:150], src=repr(b)[:150]))

  for _ in range(ctx.scale(300, 4000)):
    vs = [gen_flat_dict(rng, 1) if rng.random() < 0.5 else gen_value(rng, 2, 0.3) for _ in range(rng.randint(0, 3))]
    if vs and rng.random() < 0.3: vs.insert(rng.randint(0, len(vs)), None)
    out = impl_merge_all(vs)
    ctx.hist('merge_outcomes', 'value' if out[0] == 0 else ['KeyError', 'ValueError', 'IndexError', 'TypeError'][out[1]] if out[1] < 4 else 'other')
    add([29, [epv(x) for x in vs]], out, 'merge', len(vs) >= 2, dict(op='utils.merge', values=repr(vs)[:200]))
  for v in values[:ctx.scale(300, 4000)]:
    nodes = nodes_of(v)
    sel = rng.choice([(0, [list(rng.choice(nodes)[0]) for _ in range(rng.randint(1, 3))]), (1,), (2,), (4,), (3,)])
    root = gen_path(rng, maxlen=2) if rng.random() < 0.3 else []
    if sel[0] == 0: sel = (0, [root + p for p in sel[1]])
    inplace = rng.randrange(2)
    add([30, epv(v), epath(root), esel(sel)], impl_transform(v, root, sel, inplace), 'transform', depth_of(v) >= 2,
        dict(op='utils.transform', value=repr(v)[:200], drops=sel, root=root, inplace=bool(inplace)))
  model_outs = ctx.model_run(trees)
  lookup = {id(t): d for t, d in zip(trees, descrs)}
  ctx.compare('Hier.run / KeyPath.run vs value_location.py, hierarchical.py, pg.traverse, pg.query', trees, impls, model_outs, describe=lambda c: lookup.get(id(c)))
  # direct oracle on every case
  n_or = 0
  import time as _time
  budget = ctx.scale(95, 1400)               # wall-clock budget (s) for the whole run; what is skipped is reported
  skipped = 0
  for fn, args in oracle_jobs:
    if _time.time() - ctx.t0 > budget:
      skipped += 1; continue
    n_or += 1
    try:
      found = fn(*args)
    except Exception as e:     # the oracle touches the library: an exception it does not expect is a failure of the property's observables
      found = [('C10/%s/raises-%s' % (fn.__name__.replace('oracle_', ''), type(e).__name__),
                'evaluating the property on %r raised %s: %s' % (tuple(repr(a)[:120] for a in args), type(e).__name__, str(e)[:120]),
                oracle_case(fn, args))]
    for sig, what, case in found:
      ctx.hit(sig, what, case)
  ctx.extra['oracle_evaluations'] = n_or
  ctx.extra['oracle_jobs_skipped_for_wall_clock_budget'] = skipped
  # library exceptions that no driver expects: each is a failing input of its own
  ctx.extra['unexpected_library_exceptions'] = len(ESCAPED)
  for op, exc, msg, case in ESCAPED:
    ctx.hit('C10/%s/raises-%s' % (op, exc), '%s raised %s: %s on an input of the property (%s)' % (op, exc, msg, case.get('shown', case)), case)
  # targeted search when something no longer checks and nothing failed yet
  if ctx.is_broken() and not ctx.hits:
    ctx.log('searching for a failing input ...')
    def safely(fn, *args):
      try:
        found = fn(*args)
      except Exception as e:
        found = [('C10/%s/raises-%s' % (fn.__name__.replace('oracle_', ''), type(e).__name__), 'raised %s: %s' % (type(e).__name__, str(e)[:120]), oracle_case(fn, args))]
      for sig, what, case in found: ctx.hit(sig, what, case)
    sweep_paths_ok = [q for q in sweep_paths() if all(key_ok(k) for k in q)]
    for pth, seq in observer_sweep(rng, OBS_PATHS + sweep_paths_ok[::7], 2000):
      safely(oracle_observers, pth, seq)
      if len(ctx.hits) >= 3: break
    for _ in range(ctx.scale(4000, 20000)):
      if len(ctx.hits) >= 3: break
      safely(oracle_roundtrip, gen_path(rng, ok_only=True))
      a, b, c = gen_path(rng, maxlen=3), gen_path(rng, maxlen=3), gen_path(rng, maxlen=3)
      safely(oracle_arith, a, b); safely(oracle_order, a, b, c)
      safely(oracle_set, gen_set_ops(rng))
      v = gen_value(rng, 3, 0.3)
      safely(oracle_value, v, False)
      try:
        sv = to_sym(copy.deepcopy(v))
      except Exception:
        sv = None
      if sv is not None: safely(oracle_value, sv, True)
      if len(ctx.hits) >= 3: break

def oracle_case(fn, args):
  n = fn.__name__
  if n == 'oracle_roundtrip': return dict(kind='roundtrip', keys=list(args[0]))
  if n == 'oracle_arith': return dict(kind='arith', p=list(args[0]), q=list(args[1]))
  if n == 'oracle_order': return dict(kind='order', a=list(args[0]), b=list(args[1]), c=list(args[2]))
  if n == 'oracle_set': return dict(kind='set', ops=args[0])
  if n == 'oracle_objects': return dict(kind='objects', value_tr=epv(args[0]))
  if n == 'oracle_observers': return dict(kind='observers', keys=list(args[0]), obs=[[a, list(b)] for a, b in args[1]])
  return _value_case(args[0])

def replay(ctx, rp):
  c = rp['case']
  k = c.get('kind')
  if k == 'roundtrip': hits = oracle_roundtrip(c['keys'])
  elif k == 'arith': hits = oracle_arith(c['p'], c['q'])
  elif k == 'order': hits = oracle_order(c['a'], c['b'], c['c'])
  elif k == 'set': hits = oracle_set(c['ops'])
  elif k == 'parse':
    out = impl_parse(c['string'])
    hits = [('C10/parse/raises', 'parse(%r) raises an unexpected exception' % c['string'], c)] if out[:2] == [1, 98] else []
  elif k == 'observers': hits = oracle_observers(c['keys'], [(a, b) for a, b in c['obs']])
  elif k == 'objects': hits = oracle_objects(dpv(c['value_tr']))
  elif k == 'value':
    v = dpv(c['value_tr'])
    x = to_sym(v) if c.get('sym') else v
    hits = oracle_value(x, bool(c.get('sym')))
    del ESCAPED[:]
    impl_traverse(x, [], None, None); impl_pg_traverse(x, [], []); impl_pg_query(x, (3,), 1); impl_flatten(0, plain(x)); impl_canon_flatten(0, 1, plain(x))
    hits += [('C10/%s/raises-%s' % (op, exc), msg, case) for op, exc, msg, case in ESCAPED]
  else:
    raise ValueError('unknown replay kind %r' % k)
  for h in hits:
    print('  still fails:', h[0], '--', h[1])
  return not hits

"""C10 — path addressing is exact: parse/format, arithmetic, ordering, lookup, traversal, flatten/canonicalize, path sets."""
import copy, json, os, sys, unicodedata
from harness.lib import tr as trlib

META = dict(
    id='C10',
    model_run='PG.Model.Hier.run',
    model_targets=['Model/KeyPathDigits.vo', 'Model/KeyPath.vo', 'Model/Hier.vo'],
    instance_obligations=['unicode_digit_table (Model/KeyPathDigits.v equals str.isdigit / int() of the running interpreter on all 1,114,112 code points; re-derived every run)'],
    technique=('Coq proof over an executable model of value_location.py / hierarchical.py (parse state machine, path_str, arithmetic, ordering, '
               'the KeyPathSet trie as the literal dict of dicts, traverse, flatten, canonicalize) + differential correspondence of every modelled '
               'operation against the implementation + direct oracle (the property text on the real objects)'),
    design_ref='DESIGN.md §5 C10',
    level_text='see design/C10.md',
    level_note='see design/C10.md',
    rule=('a case is one modelled operation with its inputs (key list / path string / path pair / KeyPathSet op sequence / nested value); distinct by the '
          'canonical case tree; non-trivial when it has a key with a delimiter, digit or non-ASCII character, a negative or multi-digit integer, '
          'an error outcome, a set sequence with at least 3 ops, or a value of depth >= 2'),
    trusted_base=['extraction: ExtrOcamlBasic only; ocaml/main.ml lexer/printer; cross-checked against vm_compute on a sample',
                  'harness/props/c10.py: generators, implementation driver, canonicalisation of exceptions to small integers',
                  'CPython str.isdigit / int() / str comparison (the digit table is compared with the interpreter on every run)'],
    assumptions=['int() digit-count limit (4300) and memory limits are not modelled; strings are sequences of code points'],
)

# ------------------------------------------------------------------------------------------------
def py():
  from pyglove.core.utils import value_location as vl, hierarchical as hi
  return vl, hi

ALPHABET = ['.', '[', ']', '-', '0', '7', 'a', '²', 'é', '\U0001d4b3', ' ', "'", '"', '$', '٣', 'b', '1']

# ---- conversion between Python values and wire trees ------------------------------------------------
def ekey(k):
  if isinstance(k, bool): raise TypeError('bool key')
  if isinstance(k, int): return [1, k]
  if isinstance(k, str): return [0, [ord(c) for c in k]]
  raise TypeError('key %r' % (k,))
def epath(keys): return [ekey(k) for k in keys]
def dkey(t): return ''.join(chr(c) for c in t[1]) if t[0] == 0 else t[1]
def dpath(t): return [dkey(k) for k in t]
def estr(s): return [ord(c) for c in s]
def epv(v):
  if v is None: return [0]
  if isinstance(v, bool): raise TypeError('bool value')
  if isinstance(v, int): return [1, v]
  if isinstance(v, str): return [2, estr(v)]
  if isinstance(v, list): return [3, [epv(x) for x in v]]
  if isinstance(v, dict): return [4, [[ekey(k), epv(x)] for k, x in v.items()]]
  raise TypeError('value %r' % (v,))

ERR = {KeyError: 0, ValueError: 1, IndexError: 2, TypeError: 3}
def eerr(e):
  for cls, c in ERR.items():
    if type(e) is cls: return [1, c]
  return [1, 90, estr(type(e).__name__)]

def key_ok(k):
  if isinstance(k, int): return True
  if not k: return False
  d = 0
  for c in k:
    if c == '[': d += 1
    elif c == ']':
      d -= 1
      if d < 0: return False
  return d == 0

def same_keys(a, b):
  return len(a) == len(b) and all(type(x) is type(y) and x == y for x, y in zip(a, b))

# ---- implementation driver -------------------------------------------------------------------------
def impl_parse(s):
  vl, _ = py()
  try:
    return [0, epath(vl.KeyPath.parse(s).keys)]
  except ValueError as e:
    m = str(e)
    if 'unmatched close bracket' in m: return [1, 0]
    if 'unmatched open bracket' in m: return [1, 1]
    if 'invalid literal for int' in m: return [1, 2]
    return [1, 91, estr(m[:40])]
  except Exception as e:
    return [1, 92, estr(type(e).__name__)]

def impl_arith(op, p, q):
  vl, _ = py()
  P, Q = vl.KeyPath(list(p)), vl.KeyPath(list(q))
  try:
    if op == 0: return [0, epath((P + Q).keys)]
    if op == 1:
      try:
        return [0, epath((P - Q).keys)]
      except ValueError as e:
        return [1, 1 if 'is an ancestor of' in str(e) else 2 if 'different subtree' in str(e) else 93]
    if op == 2:
      try: return [0, epath(P.parent.keys)]
      except KeyError: return [1, 0]
    if op == 3: return [0, int(P.is_relative_to(Q))]
    if op == 4: return [0, int(P < Q)]
    if op == 5: return [0, int(P <= Q)]
    if op == 6: return [0, int(P > Q)]
    if op == 7: return [0, int(P >= Q)]
    if op == 8: return [0, int(P == Q)]
    if op == 9:
      try: return [0, ekey(P.key)]
      except KeyError: return [1, 0]
    if op == 10: return [0, int(P == str(Q))]
    if op == 11: return [0, len(P)]
  except Exception as e:
    return [1, 94, estr(type(e).__name__)]
  raise ValueError(op)

def impl_set(ops):
  vl, _ = py()
  K = vl.KeyPath
  regs = [vl.KeyPathSet(), vl.KeyPathSet(), vl.KeyPathSet()]
  outs = []
  crashed = False
  for code, r, r2, r3, p, fl in ops:
    try:
      P = K(list(p))
      if code == 0: o = [0, int(regs[r].add(P, include_intermediate=bool(fl)))]
      elif code == 1: o = [0, int(regs[r].remove(P))]
      elif code == 2: o = [0, int(P in regs[r])]
      elif code == 3: o = [0, int(regs[r].has_prefix(P))]
      elif code == 4: regs[r].rebase(P); o = [1]
      elif code == 5: regs[r].clear(); o = [1]
      elif code == 6: regs[r].update(regs[r2]); o = [1]
      elif code == 7: regs[r].difference_update(regs[r2]); o = [1]
      elif code == 8: regs[r].intersection_update(regs[r2]); o = [1]
      elif code == 9: regs[r3] = regs[r].union(regs[r2]); o = [1]
      elif code == 10: regs[r3] = regs[r].difference(regs[r2]); o = [1]
      elif code == 11: regs[r3] = regs[r].intersection(regs[r2]); o = [1]
      elif code == 12: regs[r3] = regs[r].copy(); o = [1]
      elif code == 13: o = [0, int(regs[r] == regs[r2])]
      elif code == 14: o = [0, int(bool(regs[r]))]
      elif code == 15: o = [2, [epath(x.keys) for x in regs[r]]]
      elif code == 16:
        st = regs[r].subtree(P)
        o = [3] if st is None else [2, [epath(x.keys) for x in st]]
      elif code == 17: regs[r3] = P + regs[r]; o = [1]
      else: raise ValueError(code)
    except Exception as e:
      outs.append([-2]); crashed = True
      break
    outs.append(o)
  final = []
  if not crashed:
    for s in regs:
      try: final.append([epath(x.keys) for x in s])
      except Exception: final.append([-2])
  return [outs, final], regs

def impl_lookup(p, v):
  vl, _ = py()
  try:
    return [0, epv(vl.KeyPath(list(p)).query(v))]
  except Exception as e:
    return eerr(e)

def impl_traverse(v, root, stop_pre, stop_post):
  vl, hi = py()
  log = []
  def pre(p, x):
    log.append([0, epath(p.keys), epv(x)])
    return stop_pre is None or not same_keys(p.keys, stop_pre)
  def post(p, x):
    log.append([1, epath(p.keys), epv(x)])
    return stop_post is None or not same_keys(p.keys, stop_post)
  ok = hi.traverse(v, pre, post, vl.KeyPath(list(root)))
  return [log, int(bool(ok))]

def act_of(acts, keys):
  import pyglove as pg
  A = pg.TraverseAction
  for p, a in acts:
    if same_keys(p, keys):
      return [A.STOP, A.ENTER, A.CONTINUE][a]
  return A.ENTER

def impl_pg_traverse(v, pre_acts, post_acts, parents=None):
  import pyglove as pg
  log = []
  def pre(p, x, parent):
    log.append([0, epath(p.keys), epv(plain(x))])
    if parents is not None: parents.append((p.keys, x, parent))
    return act_of(pre_acts, p.keys)
  def post(p, x, parent):
    log.append([1, epath(p.keys), epv(plain(x))])
    return act_of(post_acts, p.keys)
  ok = pg.traverse(v, pre, post)
  return [log, int(bool(ok))]

def plain(x):
  """pg.Dict / pg.List -> dict / list (for printing)."""
  if isinstance(x, dict): return {k: plain(v) for k, v in x.items()}
  if isinstance(x, list): return [plain(v) for v in x]
  return x

def sel_fn(sel):
  kind = sel[0]
  if kind == 0:
    ps = sel[1]
    return lambda k, v: any(same_keys(k.keys, p) for p in ps)
  if kind == 1: return lambda k, v: isinstance(v, int) and not isinstance(v, bool)
  if kind == 2: return lambda k, v: isinstance(v, (dict, list)) and len(v) > 0
  if kind == 3: return lambda k, v: True
  if kind == 4: return lambda k, v: not (isinstance(v, (dict, list)) and len(v) > 0)
  raise ValueError(sel)

def esel(sel):
  return [0, [epath(p) for p in sel[1]]] if sel[0] == 0 else [sel[0]]

def impl_pg_query(v, sel, es):
  import pyglove as pg
  res = pg.query(v, custom_selector=sel_fn(sel), enter_selected=bool(es))
  return [[estr(k), epv(plain(x))] for k, x in res.items()]

def impl_flatten(fck, v):
  _, hi = py()
  return epv(hi.flatten(copy.deepcopy(v), bool(fck)))

def impl_canon(sp, v):
  _, hi = py()
  try:
    return [0, epv(hi.canonicalize(copy.deepcopy(v), bool(sp)))]
  except Exception as e:
    return eerr(e)

def impl_canon_flatten(fck, sp, v):
  _, hi = py()
  try:
    return [0, epv(hi.canonicalize(hi.flatten(copy.deepcopy(v), bool(fck)), bool(sp)))]
  except Exception as e:
    return eerr(e)

def impl_merge(d, s):
  _, hi = py()
  try:
    return [0, epv(hi.merge_tree(copy.deepcopy(d), copy.deepcopy(s)))]
  except Exception as e:
    return eerr(e)

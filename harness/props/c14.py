"""C14 — evolution operators are closed over valid DNA and never corrupt their inputs."""
import functools, json, random as pyrandom, traceback
from harness.lib import tr as trlib
from harness.props import geno_gen as G
from harness.translators import evo_src

META = dict(
    id='C14',
    model_run='PG.Model.EvoRun.run',
    model_targets=['Model/EvoRun.vo'],
    instance_obligations=['source pins (Gen/EvoSrc.v): the 57 classes / functions of pyglove/ext/evolution transcribed by Model/Evo*.v have the fingerprints the model was written against (harness/translators/evo_src.py, fail-closed, re-checked every run)'],
    technique=('Coq proof over an executable model of the evolution operators (structured DNA decisions of the Geno model; populations of '
               'identified individuals; an expression type for the composition algebra with an evaluator) + differential correspondence with a '
               'RECORDED PRNG (every draw of the real random.Random is logged and replayed by the model) + direct oracle on the real objects'),
    design_ref='DESIGN.md §5 C14',
    level_text=('Theorems (any specification, any valid parents / populations, any PRNG meeting the contract of random.Random, any operator expression): '
                'selectors return members of their input in the documented number; Uniform and Swap mutation, point-wise (Uniform, Sample, Average, WeightedAverage under '
                'every where filter), segment-wise (KPoint, Segmented) and permutation (PMX, Order, Cycle) recombination never return a child that is not a valid, aligned '
                'decision of the specification; Uniform mutation always finds the node it drew (total without custom points) and point-wise recombination never leaves a parent '
                'without decisions (from_dict cannot fail with "not found"); selector pipelines return members; the permutation crossovers only propose permutations (exhaustive for 2..4 values); every expression built with >> | & + - ^ * ** [] ~ with_prob / Choice / Conditional / for_each / flatten / until_change over '
                'primitives that are closed is closed (induction on the expression: ALL operator programs), hence every expression over the shipped operators. '
                'Tie: the real operators run with a recording random.Random; the model replays the recorded draws and must print the same population (identities of surviving '
                'inputs, every new DNA with the spec address bound to each node, or the same exception class) on every case; a direct oracle (spec.validate, alignment of '
                'views and node specs, to_json of the inputs unchanged, members / documented count, same seed -> same result) runs on every case.'),
    level_note=('Closure theorems are partial-correctness statements (a returned child is valid); that the operators do not raise on valid parents is decided by correspondence '
                'and oracle only (for the permutation crossovers the model validates proposals as from_dict does, so the theorem is named _partial). '
                '"Never modifies its inputs" and "deterministic function of seed and inputs" are definitional in a pure model: decided by the oracle only '
                '(pg.to_json of every input incl. metadata and the shape of the input list before/after; two runs with equal seeds compared by value and identity pattern). '
                'Not modelled: Mersenne Twister (draws are recorded), the iteration order of Python sets of DNAs (recorded as a permutation), float rounding '
                '(dyadic floats; cases whose averages leave the 1/64 grid are checked by the oracle only), user functions of custom decision points (none is given: NotImplementedError, modelled), scalars schedules.'),
    rule=('a case is (specification, operator expression, population with identities and fitness, recorded draws); distinct by its wire text; '
          'non-trivial when the expression contains a mutator or recombinator and the run draws at least once, or is a selector on a population of >= 2'),
    trusted_base=['extraction: ExtrOcamlBasic only; ocaml/main.ml lexer/printer; cross-checked against vm_compute on a sample',
                  'the recording subclass of random.Random (harness/props/c14.py RecRandom) reports the index / indices / value each call returned',
                  'harness/props/geno_gen.py builds the real DNASpec / DNA objects from the generated descriptions (shared with C11, C12)'],
    assumptions=['random.Random contract (Proofs/EvoBase.v rng_ok): choice/randint return an index below n; sample(range(n), k) returns k distinct indices below n; '
                 'choices returns k indices of non-zero weight; uniform(lo, hi) stays in [lo, hi]; shuffle returns a permutation -- every recorded draw is checked against it',
                 'weighting functions return non-negative weights (their value spec is Float(min_value=0.0)): hypothesis weights_nonneg of C14_selector_count'],
)

# ------------------------------------------------------------------------------------------------
def REPO_DIR():
  from harness.lib.common import REPO
  return REPO

def lib():
  import pyglove as pg
  from pyglove.ext.evolution import base, mutators, recombinators, selectors, where
  return pg, base, mutators, recombinators, selectors, where

class RecRandom(pyrandom.Random):
  """random.Random that logs what every call made by the evolution package returned (as indices) and checks each
  answer against the contract the theorems assume (Proofs/EvoBase.v rng_ok)."""
  def __init__(self, seed):
    super().__init__(seed); self.log = []; self.depth = 0; self.checked = 0; self.contract_broken = []
  def expect(self, ok, what):
    self.checked += 1
    if not ok: self.contract_broken.append(what)
  def getrandbits(self, k):            # keeps _randbelow on the getrandbits path although random() is overridden
    return super().getrandbits(k)
  def random(self):
    r = super().random()
    if not self.depth:
      self.log.append([3, int(r * 2 ** 53)]); self.expect(0.0 <= r < 1.0, 'random() = %r' % r)
    return r
  def choice(self, seq):
    n = len(seq)
    if not n: raise IndexError('Cannot choose from an empty sequence')
    i = self._randbelow(n); self.log.append([0, i]); self.expect(0 <= i < n, 'choice index %d of %d' % (i, n)); return seq[i]
  def randint(self, a, b):
    r = super().randint(a, b); self.log.append([0, r - a]); self.expect(a <= r <= b, 'randint(%d, %d) = %d' % (a, b, r)); return r
  def choices(self, population, weights=None, *, cum_weights=None, k=1):
    self.depth += 1
    try:
      idx = super().choices(range(len(population)), weights, cum_weights=cum_weights, k=k)
    finally:
      self.depth -= 1
    self.log.append([1] + list(idx))
    self.expect(len(idx) == k and all(0 <= i < len(population) and (weights is None or weights[i] != 0) for i in idx), 'choices %r weights %r' % (idx, weights))
    return [population[i] for i in idx]
  def sample(self, population, k, **kw):
    idx = super().sample(range(len(population)), k, **kw)
    self.log.append([1] + list(idx))
    self.expect(len(idx) == k and len(set(idx)) == k and all(0 <= i < len(population) for i in idx), 'sample %r of %d' % (idx, len(population)))
    return [population[i] for i in idx]
  def shuffle(self, x):
    idx = list(range(len(x))); super().shuffle(idx)
    self.log.append([1] + idx); self.expect(sorted(idx) == list(range(len(x))), 'shuffle %r' % idx); x[:] = [x[i] for i in idx]
  def uniform(self, a, b):
    # the real uniform() is a + (b-a)*random(): snapped to the 1/64 grid inside [a, b] so that the model's dyadic floats can carry it
    self.depth += 1
    try:
      r = super().uniform(a, b)
    finally:
      self.depth -= 1
    self.expect(a <= r <= b, 'uniform(%r, %r) = %r' % (a, b, r))
    r = min(max(round(r * 64) / 64.0, a), b)
    self.log.append([2, int(r * 64) if r * 64 == int(r * 64) else None]); return r

# ------------------------------------------------------------------------------------------------
# structured decisions of a real DNA, the order of the model (Geno.scmp), exception classes
def sdna_of(spec_t, d):
  return G.parse_tree(spec_t, G.dna_to_tree(d))

def scmp(a, b):
  """Mirror of Geno.scmp / pcmp on the Python form of structured decisions."""
  def lcmp(f, xs, ys):
    for x, y in zip(xs, ys):
      c = f(x, y)
      if c: return c
    return (len(xs) > len(ys)) - (len(xs) < len(ys))
  def pc(x, y):
    if x[0] == 'c' and y[0] == 'c':
      return lcmp(lambda p, q: ((p[0] > q[0]) - (p[0] < q[0])) or scmp(p[1], q[1]), x[1], y[1])
    if x[0] == 'f' and y[0] == 'f': return (x[1] > y[1]) - (x[1] < y[1])
    if x[0] == 's' and y[0] == 's':
      a_, b_ = [ord(c) for c in x[1]], [ord(c) for c in y[1]]
      return (a_ > b_) - (a_ < b_)
    rank = {'c': 0, 'f': 1, 's': 2}
    return (rank[x[0]] > rank[y[0]]) - (rank[x[0]] < rank[y[0]])
  return lcmp(pc, a, b)

ERR = [(NotImplementedError, 7), (ValueError, 1), (TypeError, 2), (IndexError, 3), (RuntimeError, 4), (KeyError, 5), (ZeroDivisionError, 6)]
def err_code(e):
  for cls, c in ERR:
    if isinstance(e, cls): return c
  return 9

# documented preconditions: an exception of one of these shapes is the operator refusing its input, not a violation
ALLOWED = [
    (RuntimeError, 'Immutable DNA'), (KeyError, "'k"), (ValueError, 'supports recombination on exact'), (KeyError, 'reward'),
    (TypeError, 'The input is expected to be a list of'), (IndexError, 'list index out of range'),
    (IndexError, 'Cannot choose from an empty sequence'), (ValueError, 'Total of weights must be greater than zero'),
    (ZeroDivisionError, ''), (NotImplementedError, '`random_dna` is not supported'), (ValueError, 'Sample larger than population'),
]
def allowed_exception(e):
  return any(isinstance(e, cls) and msg in str(e) for cls, msg in ALLOWED)

# ------------------------------------------------------------------------------------------------
# expressions are the wire trees of coq/Model/EvoRun.v (lists of ints); building the real operators
def nval(n):
  return n[1] if n[0] == 0 else (n[1] / float(2 ** n[2]) if n[0] == 1 else None)

def pval(p):
  return p[0] / float(2 ** p[1])

def wfn(w):
  _, base, *_ = lib()
  if w == 0: return lambda xs: [1.0] * len(xs)
  if w == 2: return lambda xs: [float(base.get_fitness(x)) for x in xs]          # the fitness itself as weight (zeros included)
  return lambda xs: [base.get_fitness(x) + 0.25 for x in xs]

def node_where(nw):
  pg = lib()[0]
  if all(nw): return None
  kinds = [pg.geno.Choices, pg.geno.Float, pg.geno.CustomDecisionPoint]
  ok = tuple(k for k, b in zip(kinds, nw) if b)
  return lambda d: isinstance(d.spec, ok)

def rec_where(w, seed):
  W = lib()[5]
  if w[0] == 2: return lambda xs: xs[::2]          # a plain function: converted to where.Lambda
  return W.ALL if w[0] == 0 else W.Any(k=w[1], seed=seed)

class Builder:
  """Builds the real operation for an expression.  seeds: None -> every primitive shares the recorder `rec`;
  otherwise an iterator of ints handed to the primitives in construction order."""
  def __init__(self, rec=None, seeds=None):
    self.rec, self.seeds = rec, seeds
  def seed(self):
    return None if self.seeds is None else next(self.seeds)
  def prim(self, p):
    pg, base, M, R, S, W = lib()
    if p[0] == 0:
      sl = p[1]; n = nval(sl[1])
      if sl[0] == 0: return S.Random(n, replacement=bool(sl[2]), seed=self.seed())
      if sl[0] == 1: return S.Sample(n, weights=wfn(sl[2]), seed=self.seed())
      if sl[0] == 2: return S.Proportional(n, weights=wfn(sl[2]))
      if sl[0] == 3: return S.Top(n, cluster=bool(sl[2]))
      if sl[0] == 4: return S.Bottom(n, cluster=bool(sl[2]))
      if sl[0] == 5: return S.First(n)
      return S.Last(n)
    if p[0] == 1:
      m = p[1]
      return (M.Uniform if m[0] == 0 else M.Swap)(where=node_where(m[1]), seed=self.seed())
    if p[0] == 2:
      rc = p[1]
      if rc[0] == 0:
        kd, w, wf = rc[1], rc[2], rc[3]
        sd = self.seed()
        if kd == 0: return R.Uniform(where=rec_where(w, sd), seed=sd)
        if kd == 1: return R.Sample(weights=wfn(wf), where=rec_where(w, sd), seed=sd)
        if kd == 2: return R.Average(where=rec_where(w, sd))
        return R.WeightedAverage(weights=wfn(wf), where=rec_where(w, sd))
      if rc[0] == 1: return R.KPoint(rc[1], seed=self.seed())
      if rc[0] == 2:
        cuts = list(rc[1])
        return R.Segmented(lambda xs: list(cuts))
      sd = self.seed()
      cls = [R.PartiallyMapped, R.Order, R.Cycle][rc[1]]
      if rc[2] == [1, 1]: return cls(seed=sd)            # the default filter: where.ANY
      return cls(where=rec_where(rc[2], sd), seed=sd)
    m = max(p[1], 1)
    return base.Lambda(lambda xs: [xs[i:i + m] for i in range(0, len(xs), m)])
  def build(self, x):
    pg, base, M, R, S, W = lib()
    t = x[0]
    isop = lambda o: isinstance(o, base.Operation)
    if t == 0: return self.prim(x[1])
    if t == 1: return base.Identity()
    if t == 19:
      inner = self.build(x[1])
      def plain(xs):                       # a plain callable operand: not an Operation, takes the inputs only
        import gc
        gc.collect()                       # objects of operands evaluated earlier that nobody holds any more go away now
        return inner(xs)
      return plain
    if t == 20: return base.GlobalStateGetter('k%d' % x[1], [] if x[2] else None)
    if t == 21: return base.GlobalStateSetter('k%d' % x[1]) if x[2] else base.GlobalStateSetter('k%d' % x[1], [])
    if t == 2 and x[2][0] == 21 and x[2][2]:
      a = self.build(x[1])
      return a.as_global_state('k%d' % x[2][1]) if isop(a) else base.Pipeline([a, self.build(x[2])])
    if t == 5 and x[2][0] == 21 and not x[2][2]:
      a = self.build(x[1])
      return a.set_global_state('k%d' % x[2][1], []) if isop(a) else base.Concatenation([a, self.build(x[2])])
    if t == 2:
      a = self.build(x[1])
      if x[2][0] == 16:
        f = self.build(x[2][1])
        return a.for_each(f) if isop(a) else base.Pipeline([a, base.ElementWise(f)])
      if x[2][0] == 17:
        ml = x[2][1][0] if x[2][1] else None
        return a.flatten(ml) if isop(a) else base.Pipeline([a, base.Flatten(ml)])
      b = self.build(x[2])
      return a >> b if isop(a) or isop(b) else base.Pipeline([a, b])
    if t in (3, 4, 5, 6, 7):
      a, b = self.build(x[1]), self.build(x[2])
      if isop(a) or isop(b):
        return {3: lambda: a | b, 4: lambda: a & b, 5: lambda: a + b, 6: lambda: a - b, 7: lambda: a ^ b}[t]()
      return {3: base.Union, 4: base.Intersection, 5: base.Concatenation, 6: base.Difference, 7: base.SymmetricDifference}[t]([a, b])
    if t == 8:
      a = self.build(x[2]); return a * x[1] if isop(a) else base.Repeat(a, x[1])
    if t == 9:
      a = self.build(x[2]); return a ** x[1] if isop(a) else base.Power(a, x[1])
    if t == 10:
      a = self.build(x[2]); return a[x[1]] if isop(a) else base.Slice(a, x[1])
    if t == 11:
      lo = x[1][0] if x[1] else None; hi = x[2][0] if x[2] else None
      a = self.build(x[4]); sl = slice(lo, hi, max(x[3], 1))
      return a[sl] if isop(a) else base.Slice(a, sl)
    if t == 12:
      a = self.build(x[1]); return ~a if isop(a) else base.Inversion(a)
    if t == 13:
      a = self.build(x[2])
      return a.with_prob(pval(x[1]), seed=self.seed()) if isop(a) else base.Choice([(a, pval(x[1]))], seed=self.seed())
    if t == 14:
      return base.Choice([(self.build(x[1]), pval(x[2])), (self.build(x[3]), pval(x[4]))], limit=x[5][0] if x[5] else None, seed=self.seed())
    if t == 15:
      thr = x[1]
      return base.Conditional(lambda xs: len(xs) > thr, self.build(x[2][0]) if x[2] else None, self.build(x[3][0]) if x[3] else None)
    if t == 16: return base.ElementWise(self.build(x[1]))
    if t == 17: return base.Flatten(x[1][0] if x[1] else None)
    if t == 18:
      a = self.build(x[2]); return a.until_change(x[1]) if isop(a) else base.UntilChange(a, x[1])
    raise ValueError('unknown expression tag %r' % (t,))

def op_objects(op):
  """Every operation / decision-point filter reachable from an operation, including the private copies an operation keeps."""
  pg, base, M, R, S, W = lib()
  seen, out = set(), []
  def walk(o):
    if id(o) in seen: return
    seen.add(id(o))
    if isinstance(o, (base.Operation, W.DecisionPointFilter)):
      out.append(o)
      for k, v in list(vars(o).items()):
        if k.startswith('_sym_') or k in ('_random',): continue
        walk(v)
      for k in o.sym_keys(): walk(o.sym_getattr(k))
    elif isinstance(o, (list, tuple)):
      for v in o: walk(v)
    elif callable(o) and getattr(o, '__closure__', None):      # a plain callable operand closing over an operation
      for cell in o.__closure__:
        try: walk(cell.cell_contents)
        except ValueError: pass
    elif hasattr(o, '_func') or hasattr(o, 'func'):            # CallableWithOptionalKeywordArgs around a plain callable
      walk(getattr(o, '_func', None) or getattr(o, 'func', None))
  walk(op)
  return out

def instrument(op, rec, spec_t):
  """All primitives draw from `rec`; the iteration order of the sets of children is logged as a draw."""
  pg, base, M, R, S, W = lib()
  for o in op_objects(op):
    if '_random' in vars(o): o._random = rec
    if isinstance(o, (R.PointWise, R.Permutation)):
      orig = o._operate
      def wrapped(inputs, _orig=orig, **kw):
        out = _orig(inputs, **kw)
        if inputs and out is not inputs:
          try:
            sds = [sdna_of(spec_t, c) for c in out]
            srt = sorted(sds, key=functools.cmp_to_key(scmp))
            perm = []
            for sd in sds:
              perm.append([i for i, u in enumerate(srt) if scmp(u, sd) == 0 and i not in perm][0])
          except Exception:       # an invalid child: the oracle reports it; the draw is a placeholder
            perm = list(range(len(out)))
          rec.log.append([1] + perm)
        return out
      o._operate = wrapped

# ------------------------------------------------------------------------------------------------
# populations: ['d', id, sdna, fit|None] | ['g', gid, [item ...]]
def build_population(spec_t, spec, pop):
  pg, base, *_ = lib()
  objs = {}
  def item(x):
    if x[0] == 'g': return [item(y) for y in x[2]]
    if x[1] not in objs:
      d = G.build_dna(x[2]); d.use_spec(spec)
      if x[3] is not None: base.set_fitness(d, x[3])
      objs[x[1]] = d
    return objs[x[1]]
  return [item(x) for x in pop], objs

def pop_tr(pop):
  def item(x):
    if x[0] == 'g': return [1, x[1]] + [item(y) for y in x[2]]
    return [0, x[1], G.sdna_tr(x[2]), [] if x[3] is None else [G.f64(x[3])]]
  return [item(x) for x in pop]

_SPECS = {}
def pg_spec(spec_t):
  """The real DNASpec of a description and its address index (specifications are never modified by the operators: shared between cases)."""
  from harness.props import c12 as C12
  k = repr(spec_t)
  if k not in _SPECS:
    if len(_SPECS) > 400: _SPECS.clear()
    spec = G.to_pg(spec_t)
    _SPECS[k] = (spec, C12.SpecIndex(spec_t, spec))
  return _SPECS[k]

class Inexact(Exception):
  pass

def out_tr(out, objs, ix):
  from harness.props import c12 as C12
  ident = {id(o): k for k, o in objs.items()}
  news = []
  def val(v):
    if isinstance(v, float) and v * 64 != int(v * 64): raise Inexact()
    return G.val_tr(v)
  def item(o):
    if isinstance(o, list): return [2] + [item(y) for y in o]
    if id(o) in ident: return [0, ident[id(o)]]
    if not any(o is n for n in news): news.append(o)
    fit = o.metadata.get('reward') if hasattr(o.metadata, 'get') else None
    return [1, [i for i, n in enumerate(news) if n is o][0], [C12.bound_tree(o, ix, val)], [] if fit is None else [G.f64(fit)]]
  return [item(o) for o in out], news

def impl_run(spec_t, expr, pop, seed):
  """Runs the expression on the real objects with the recorder.  Returns dict(out=wire outcome | None when inexact, draws, exc, news, objs, result)."""
  pg, base, *_ = lib()
  from harness.props import c12 as C12
  spec, ix = pg_spec(spec_t)
  inputs, objs = build_population(spec_t, spec, pop)
  before = json.dumps([pg.to_json(o) for o in objs.values()], sort_keys=True, default=str)
  shape_before = repr(shape(inputs, objs))
  links_before = links_state(objs)
  rec = RecRandom(seed)
  b = Builder(rec=rec)
  res = dict(exc=None, spec=spec, objs=objs, inputs=inputs, ix=ix)
  try:
    op = b.build(expr)
    instrument(op, rec, spec_t)
    result = op(inputs)
    res['result'] = result
    try:
      o, news = out_tr(result, objs, ix)
      res['out'] = [1, o, 0]; res['news'] = news
    except Inexact:
      res['out'] = None; res['news'] = [x for x in flat(result) if not any(x is y for y in objs.values())]
  except Exception as e:   # pylint: disable=broad-except
    res['exc'] = e; res['out'] = [0, err_code(e)]; res['tb'] = traceback.format_exc()[-1500:]
  res['draws'] = rec.log; res['contract'] = (rec.checked, rec.contract_broken[:3])
  res['inputs_unchanged'] = (before == json.dumps([pg.to_json(o) for o in objs.values()], sort_keys=True, default=str)
                             and shape_before == repr(shape(inputs, objs)))
  res['links_unchanged'] = links_before == links_state(objs)
  return res

def links_state(objs):
  """The ownership links of the input DNAs: who is the symbolic parent of every node (an input that gets adopted by
  another object, or whose nodes are moved into a child, is modified although its JSON form is not)."""
  def node(d):
    return (id(d), id(d.sym_parent) if d.sym_parent is not None else None, id(d.spec) if d._spec is not None else None, tuple(node(c) for c in d.children))
  return [node(o) for o in objs.values()]

def shape(inputs, objs):
  ident = {id(o): k for k, o in objs.items()}
  def item(o):
    return [item(y) for y in o] if isinstance(o, list) else ident.get(id(o), -1)
  return [item(o) for o in inputs]

def flat(l):
  for x in l:
    if isinstance(x, list): yield from flat(x)
    else: yield x

# ------------------------------------------------------------------------------------------------
# the direct oracle: the property text on the real objects
def culprit(tb_exc):
  """The evolution operation in whose code the exception was raised (deepest frame whose self is an Operation / filter)."""
  pg, base, M, R, S, W = lib()
  name = 'expression'
  tb = tb_exc.__traceback__
  while tb is not None:
    slf = tb.tb_frame.f_locals.get('self')
    if isinstance(slf, (base.Operation, W.DecisionPointFilter)) and 'ext/evolution' in tb.tb_frame.f_code.co_filename:
      name = type(slf).__module__.split('.')[-1] + '.' + type(slf).__name__
    tb = tb.tb_next
  return name

def msg_key(e):
  import re
  m = re.sub(r"'[^']*'", "'_'", str(e))
  m = re.sub(r'[-0-9.]+', '#', m)
  return (type(e).__name__ + ':' + ' '.join(m.split()[:6]))[:70]

def prim_names(x, acc=None):
  """Names of the primitives of an expression (for signatures and histograms)."""
  acc = [] if acc is None else acc
  if x[0] == 0:
    p = x[1]
    if p[0] == 0: acc.append('selectors.' + ['Random', 'Sample', 'Proportional', 'Top', 'Bottom', 'First', 'Last'][p[1][0]])
    elif p[0] == 1: acc.append('mutators.' + ['Uniform', 'Swap'][p[1][0]])
    elif p[0] == 2:
      rc = p[1]
      acc.append('recombinators.' + (['Uniform', 'Sample', 'Average', 'WeightedAverage'][rc[1]] if rc[0] == 0 else
                                     'KPoint' if rc[0] == 1 else 'Segmented' if rc[0] == 2 else ['PartiallyMapped', 'Order', 'Cycle'][rc[1]]))
    else: acc.append('Lambda')
  else:
    for y in kids(x): prim_names(y, acc)
  return acc

def all_prims(x, acc=None):
  """The primitive sub-expressions (Prim nodes) of an expression."""
  acc = [] if acc is None else acc
  if x[0] == 0: acc.append(x)
  else:
    for y in kids(x): all_prims(y, acc)
  return acc

def kids(x):
  t = x[0]
  if t in (2, 3, 4, 5, 6, 7): return [x[1], x[2]]
  if t in (8, 9, 10, 13, 18): return [x[2]]
  if t == 11: return [x[4]]
  if t in (12, 16, 19): return [x[1]]
  if t == 14: return [x[1], x[3]]
  if t == 15: return [y[0] for y in (x[2], x[3]) if y]
  return []

def depth_of(x):
  return 1 + max([0] + [depth_of(y) for y in kids(x)])

def check_child(spec_t, spec, ix, c):
  """None when the child is valid for the specification and aligned with it, else (clause, discriminator, text)."""
  pg = lib()[0]
  from harness.props import c12 as C12
  try:
    spec.validate(c)
  except Exception as e:   # pylint: disable=broad-except
    return ('child-invalid', msg_key(e), 'spec.validate(child) raises %s: %s' % (type(e).__name__, str(e)[:160]))
  sd = sdna_of(spec_t, c)
  if sd is None:
    return ('child-invalid', 'not-a-member:' + str(G.reject_reason(spec_t, G.dna_to_tree(c))), 'the child %r is not the normal form of a valid decision' % (c,))
  try:
    for vt in ('value', 'literal'):
      a = c.to_dict(value_type=vt); b = pg.DNA.from_numbers(c.to_numbers(), spec).to_dict(value_type=vt)
      if a != b:
        return ('child-misaligned', 'to_dict-' + vt, 'child.to_dict(%s) = %r but rebuilt from its numbers gives %r' % (vt, a, b))
    got = C12.bound_tree(c, ix, C12.oval); exp = C12.expected_bound(spec_t, sd, C12.oval)
    if got != exp:
      return ('child-misaligned', 'node-spec', 'a node of the child %r is not bound to the decision point of its position' % (c,))
  except Exception as e:   # pylint: disable=broad-except
    return ('child-misaligned', 'view-raises-' + type(e).__name__, 'a view of the child %r raises %s: %s' % (c, type(e).__name__, str(e)[:120]))
  return None

def doc_count(sl, pop):
  """The documented number of outputs of a selector (selectors.py docstrings), independent of the model."""
  import math
  n = nval(sl[1]); ln = len(pop)
  if isinstance(n, float): n = math.ceil(n * ln)
  elif n is None: n = ln
  if sl[0] == 0 and sl[2]: return n
  if sl[0] in (1, 2): return n
  if sl[0] in (3, 4) and sl[2]:
    keys = [x[3] for x in pop]
    best = sorted(set(keys), reverse=(sl[0] == 3))[:n]
    return sum(1 for k in keys if k in best)
  return min(n, ln)

def same_structure(r1, o1, r2, o2):
  """Two runs gave the same result: same values, same identities relative to their own inputs."""
  def canon(result, objs):
    ident = {id(o): k for k, o in objs.items()}
    news = []
    def item(o):
      if isinstance(o, list): return [item(y) for y in o]
      if id(o) in ident: return ('in', ident[id(o)])
      if not any(o is n for n in news): news.append(o)
      return ('new', [i for i, n in enumerate(news) if n is o][0], repr(G.dna_to_tree(o)))
    return [item(o) for o in result]
  return canon(r1, o1) == canon(r2, o2)

def seeded_run(spec_t, expr, pop, seed, given=None):
  import itertools
  if given is not None:
    inputs, objs = given          # the inputs of an earlier run that left them unchanged
  else:
    spec, _ = pg_spec(spec_t)
    inputs, objs = build_population(spec_t, spec, pop)
  op = Builder(seeds=itertools.count(seed)).build(expr)
  try:
    return ('ok', op(inputs), objs)
  except Exception as e:   # pylint: disable=broad-except
    return ('exc', type(e).__name__, None)

def oracle(spec_t, expr, pop, seed, res=None, determinism=True):
  """Returns the list of (signature, what) on which the property fails for this case."""
  hits = []
  res = res if res is not None else impl_run(spec_t, expr, pop, seed)
  names = prim_names(expr) or ['expression']
  opk = names[0] if len(names) == 1 else next((n for n in names if not n.startswith('selectors.') and n != 'Lambda'), names[0])
  if res['exc'] is not None:
    e = res['exc']
    if not allowed_exception(e):
      hits.append(('C14/raises/%s/%s' % (culprit(e), msg_key(e)),
                   'valid parents make %s raise %s: %s' % (culprit(e), type(e).__name__, str(e).split('{')[0][:200])))
  else:
    objs = res['objs']
    is_input = lambda o: any(o is p for p in objs.values())
    news = []
    for o in flat(res['result']):
      if not is_input(o) and not any(o is n for n in news): news.append(o)
    for c in news:
      bad = check_child(spec_t, res['spec'], res['ix'], c)
      if bad:
        hits.append(('C14/%s/%s/%s' % (bad[0], opk, bad[1]), bad[2])); break
    only_selectors = all(n.startswith('selectors.') for n in names) and names and 'Lambda' not in names
    if only_selectors and news:
      hits.append(('C14/selector-members/%s/new-object' % opk, 'a selector expression returned an object that is not a member of its input'))
    # x - y / x & y over operands that only return fresh objects: nothing of x's output can be in y's
    def fresh_mutator(e):
      e = e[1] if e[0] == 19 else e
      return e[0] == 0 and e[1][0] == 1
    if expr[0] in (4, 6) and fresh_mutator(expr[1]) and fresh_mutator(expr[2]) and all(x[0] == 'd' for x in pop):
      want = len(pop) if expr[0] == 6 else 0
      if len(res['result']) != want:
        hits.append(('C14/composition/base.%s/dead-object-id' % ('Difference' if expr[0] == 6 else 'Intersection'),
                     'x %s y over operands returning only new objects gave %d items instead of %d: ids of objects that no longer exist are compared'
                     % ('-' if expr[0] == 6 else '&', len(res['result']), want)))
    # segment-wise crossover moves every independent top-level position as a whole (SegmentWise docstring):
    # each top-level decision of a child (each sub-choice of an unconstrained multi-choice) is x's or y's
    if expr[0] == 0 and expr[1][0] == 2 and expr[1][1][0] in (1, 2) and len(pop) == 2 and all(x[0] == 'd' for x in pop):
      xs, ys = pop[0][2], pop[1][2]
      for c in news:
        sd = sdna_of(spec_t, c)
        if sd is None: continue
        for p, cx, px, py in zip(spec_t[1], sd, xs, ys):
          split = p[0] == 'C' and p[1] > 1 and not (p[3] or p[4])
          ok = all(scmp([('c', [u])], [('c', [a])]) == 0 or scmp([('c', [u])], [('c', [b])]) == 0 for u, a, b in zip(cx[1], px[1], py[1])) if split \
              else (scmp([cx], [px]) == 0 or scmp([cx], [py]) == 0)
          if not ok:
            hits.append(('C14/segment-integrity/%s/subtree-split' % opk,
                         'a child of a segment-wise crossover has a top-level decision that is neither parent\'s: an interdependent group was cut')); break
        else: continue
        break
    if expr[0] == 0 and expr[1][0] == 0 and all(x[0] == 'd' for x in pop):
      want = doc_count(expr[1][1], pop)
      if len(res['result']) != want:
        hits.append(('C14/selector-count/%s/%d-for-%d' % (opk, len(res['result']), want),
                     '%s returned %d items where the documentation says %d' % (opk, len(res['result']), want)))
  if not res['inputs_unchanged']:
    hits.append(('C14/input-modified/%s/to_json-differs' % opk, 'pg.to_json of the input DNAs (or the input list itself) changed during the call'))
  elif not res['links_unchanged']:
    hits.append(('C14/input-modified/%s/ownership-links' % opk,
                 'an input DNA (or one of its nodes) has a different symbolic parent / bound spec after the call: the operator adopted or re-bound an object it was given'))
  if determinism and res['exc'] is None:
    given = (res['inputs'], res['objs']) if res['inputs_unchanged'] and res['links_unchanged'] else None
    a = seeded_run(spec_t, expr, pop, seed, given); b = seeded_run(spec_t, expr, pop, seed, given)
    if a[0] != b[0] or (a[0] == 'ok' and not same_structure(a[1], a[2], b[1], b[2])) or (a[0] == 'exc' and a[1] != b[1]):
      hits.append(('C14/nondeterministic/%s/same-seed-differs' % opk, 'two runs with the same seeds and equal inputs give different results'))
  return hits

# ------------------------------------------------------------------------------------------------
# generators
def no_custom(s):
  """Custom decision points (user-supplied random_dna_fn) are replaced by float points."""
  def sp(s): return ('S', [pt(p) for p in s[1]])
  def pt(p):
    if p[0] == 'X': return ('F', 0.0, 1.0, p[1], p[2])
    if p[0] == 'C': return p[:2] + ([sp(c) for c in p[2]],) + tuple(p[3:])
    return p
  return sp(s)

def C(k, cands, dist, srt, loc):
  return ('C', k, cands, dist, srt, (loc,), None, ())
E = ('S', [])

def sparse_specs(nmax):
  """Sparse constrained multi-choices (n in {2k, 2k+1, 3k} candidates for k sub-choices) beside the dense ones of mode_specs
  (n in {k, k+1}): distinct, sorted or both; at top level and inside a conditional sub-space.  Up to nmax candidates."""
  out = []
  for k in (2, 3, 4):
    for n in sorted({2 * k, 2 * k + 1, 3 * k}):
      if n > nmax: continue
      for dist, srt in ((True, False), (True, True), (False, True)):
        m = C(k, [E] * n, dist, srt, 'm')
        out.append(('S', [m]))
        out.append(('S', [C(1, [('S', [m]), E, ('S', [C(k, [E] * n, dist, srt, 'w'), ('F', 0.0, 2.0, ('g',), None)])], False, False, 'o'),
                          C(1, [E, E], False, False, 'q')]))
  return out

def mode_specs():
  """Systematic sweep: every distinct/sorted mode x k x conditional shapes (multi-choice at top level, as the only
  element of a candidate (folded), beside another element, under a multi-choice, with float leaves)."""
  out = []
  inner1 = ('S', [C(1, [E, E, E], False, False, 'p')])
  innerf = ('S', [('F', 0.0, 3.0, ('f',), None)])
  for dist in (False, True):
    for srt in (False, True):
      for k, n in ((2, 3), (3, 3), (2, 4), (3, 4)):
        if dist and k > n: continue
        m = lambda cands: C(k, cands, dist, srt, 'm')
        plain = [E] * n
        cond = [inner1, E, innerf, E][:n] if n == 4 else [inner1, innerf, E]
        out.append(('S', [m(plain)]))
        out.append(('S', [m(cond), C(1, [E, E], False, False, 'q')]))
        out.append(('S', [C(1, [('S', [m(plain)]), E, ('S', [m(cond), ('F', -1.0, 1.0, ('g',), None)])], False, False, 'o')]))
        out.append(('S', [m([('S', [C(2, [E, E, E], dist, srt, 'i')])] + plain[1:]), ('F', 0.0, 2.0, ('h',), None)]))
  out += sparse_specs(8)
  out.append(('S', []))
  # custom decision points (no random_dna_fn: Uniform mutation of such a node raises NotImplementedError; recombinators carry the strings)
  X = lambda loc: ('X', (loc,), None)
  out.append(('S', [X('c'), C(1, [E, E, E], False, False, 'a')]))
  out.append(('S', [C(1, [('S', [X('c')]), E, ('S', [X('d'), ('F', 0.0, 1.0, ('f',), None)])], False, False, 'a'), C(2, [E, E, E], True, False, 'm')]))
  out.append(('S', [('F', 0.0, 3.0, ('a',), None), ('F', -2.0, 2.0, ('b',), None)]))
  out.append(('S', [C(1, [innerf, ('S', [('F', 1.0, 4.0, ('f',), None), C(1, [E, E], True, False, 'r')]), E], False, False, 'a')]))
  return out

def perm_specs(rng):
  """Spaces with permutation points (k = number of candidates, distinct, not sorted), alone, beside other points, nested."""
  def perm(n, loc, rich=False):
    cands = [E] * n
    if rich: cands = [('S', [C(1, [E, E], False, False, 'u')])] + cands[1:]
    return C(n, cands, True, False, loc)
  n = rng.choice([2, 3, 3, 4, 5])
  kind = rng.randrange(5)
  if kind == 0: return ('S', [perm(n, 'a')])
  if kind == 1: return ('S', [C(1, [E, E, E], False, False, 'a'), perm(n, 'b', True), ('F', 0.0, 1.0, ('c',), None)])
  if kind == 2: return ('S', [C(1, [('S', [perm(n, 'x')]), E], False, False, 'a'), perm(3, 'b')])
  if kind == 3: return ('S', [perm(n, 'a', True), perm(rng.choice([2, 3]), 'b')])
  return ('S', [C(1, [('S', [perm(n, 'x'), C(1, [E, E], False, False, 'y')]), ('S', [perm(3, 'z')])], False, False, 'a')])

def rand_sdna(rng, s, fres=None):
  def sp(s): return [pt(p) for p in s[1]]
  def pt(p):
    if p[0] == 'F':
      lo, hi = G.f64(p[1]), G.f64(p[2])
      vals = [v for v in range(lo, hi + 1) if fres is None or v % 12 == fres] or list(range(lo, hi + 1))
      return ('f', rng.choice(vals) / 64.0)
    if p[0] == 'X': return ('s', rng.choice(['', 'ab']))
    _, k, cands, dist, srt = p[:5]
    n = len(cands)
    idx = rng.sample(range(n), k) if dist else [rng.randrange(n) for _ in range(k)]
    if srt: idx = sorted(idx)
    return ('c', [(c, sp(cands[c])) for c in idx])
  return sp(s)

def gen_pop(rng, s, n, fitness=True, alias=0.15, twins=0.3, fres=None):
  """n individuals; some positions hold the same object twice (aliasing), some objects are equal in value."""
  pop, made = [], []
  for i in range(n):
    if made and rng.random() < alias:
      pop.append(rng.choice(made)); continue
    sd = rng.choice(made)[2] if made and rng.random() < twins else rand_sdna(rng, s, fres)
    x = ['d', len(made), sd, (rng.randint(0, 8) / 4.0) if fitness else None]
    made.append(x); pop.append(x)
  return pop

def nondyadic_cases(rng, n):
  """Oracle-only cases: float ranges and values that are not dyadic (rounding of the averages), parents on the bounds."""
  out = []
  for _ in range(n):
    lo, hi = rng.choice([(0.0, 0.1), (0.1, 0.7), (-0.3, 0.3), (0.2, 0.2), (1e-3, 3e-3), (0.1, 1.1)])
    f = lambda loc: ('F', lo, hi, (loc,), None)
    s = rng.choice([('S', [f('a')]), ('S', [f('a'), f('b')]), ('S', [C(1, [('S', [f('x')]), E], False, False, 'a'), f('b')]),
                    ('S', [C(2, [('S', [f('x')]), E, ('S', [f('y'), f('z')])], False, False, 'a')])])
    vals = [lo, hi, hi, lo + (hi - lo) / 3, (lo + hi) / 2, lo + (hi - lo) * 0.7]
    def sd(s):
      def pt(p):
        if p[0] == 'F': return ('f', rng.choice(vals))
        _, k, cands = p[:3]
        return ('c', [(c, [pt(q) for q in cands[c][1]]) for c in [rng.randrange(len(cands)) for _ in range(k)]])
      return [pt(p) for p in s[1]]
    same = rng.random() < 0.4
    first = sd(s)
    pop = [['d', i, first if same else sd(s), rng.choice([0.1, 0.3, 0.7, 1.0])] for i in range(rng.choice([2, 3, 3, 5, 7]))]
    expr = P([2, [0, rng.choice([2, 3, 2, 3, 0]), [0], 1]]) if rng.random() < 0.8 else P([1, [0, NW_ALL]])
    out.append((s, expr, pop))
  return out

NW_ALL = [1, 1, 1]
def gen_n(rng, big=6):
  r = rng.random()
  if r < 0.6: return [0, rng.randint(0, big)]
  if r < 0.85: return [1, rng.choice([0, 1, 1, 2, 3, 4]), 2]
  return [2]

def gen_selector(rng):
  k = rng.randrange(7)
  if k == 0: return [0, gen_n(rng), rng.randint(0, 1)]
  if k in (1, 2): return [k, gen_n(rng), rng.choice([0, 1, 2])]
  if k in (3, 4): return [k, gen_n(rng), rng.randint(0, 1)]
  return [k, gen_n(rng)]

def gen_where(rng):
  r = rng.random()
  return [0] if r < 0.5 else [2] if r < 0.62 else [1, rng.choice([0, 1, 1, 2, 3])]

def gen_mutator(rng):
  return [rng.randint(0, 1), rng.choice([NW_ALL, NW_ALL, NW_ALL, [1, 0, 0], [0, 1, 0]])]

def gen_recomb(rng, two_only=None):
  r = rng.random()
  if two_only is False or (two_only is None and r < 0.5):
    return [0, rng.randrange(4), gen_where(rng), rng.randint(0, 1)]
  k = rng.randrange(3)
  if k == 0: return [1, rng.randint(1, 4)]
  if k == 1: return [2, sorted(rng.sample(range(0, 6), rng.randint(0, 3))) if rng.random() < 0.8 else [rng.randint(0, 6) for _ in range(rng.randint(1, 3))]]
  return [3, rng.randrange(3), [1, 1] if rng.random() < 0.5 else gen_where(rng)]

def P(p): return [0, p]
def gen_prob(rng): return [rng.choice([0, 1, 2, 3, 4]), 2]

def gen_expr(rng, depth):
  """A random expression over flat populations (lists appear only between a chunking Lambda and Flatten)."""
  if depth <= 1 or rng.random() < 0.15:
    r = rng.random()
    if r < 0.35: return P([0, gen_selector(rng)])
    if r < 0.6: return P([1, gen_mutator(rng)])
    if r < 0.75: return P([2, gen_recomb(rng, two_only=False)])
    if r < 0.93: return [2, P([0, [0, [0, 2], 0]]), P([2, gen_recomb(rng, two_only=True)])]     # Random(2) >> two-parent recombinator
    return [1]
  d = depth - 1
  k = rng.randrange(17)
  def a():
    e = gen_expr(rng, d)
    return [19, e] if rng.random() < 0.12 else e       # a plain callable operand
  if k in (0, 1, 2): return [2, a(), a()]
  if k in (3, 4, 5, 6, 7): return [k, a(), a()]
  if k == 8: return [8, rng.choice([0, 1, 2, 2, 3]), a()]
  if k == 9: return [9, rng.choice([-1, 0, 1, 2, 2, 3]), a()]
  if k == 10: return [10, rng.choice([0, 0, 1, -1, 2, -2, 5]), a()]
  if k == 11:
    o = lambda: [] if rng.random() < 0.4 else [rng.randint(-4, 5)]
    return [11, o(), o(), rng.choice([1, 1, 2, 3]), a()]
  if k == 12: return [12, a()]
  if k == 13:
    if rng.random() < 0.5: return [13, gen_prob(rng), a()]
    return [14, a(), gen_prob(rng), a(), gen_prob(rng), rng.choice([[], [1], [2], [0]])]
  if k == 14:
    o = lambda: [] if rng.random() < 0.3 else [a()]
    return [15, rng.randint(0, 4), o(), o()]
  if k == 15: return [18, rng.randint(1, 3), a()]
  if k == 16 and rng.random() < 0.5:
    # global state: store an output, read it back (or a key that was never set), set a constant
    key = rng.randint(0, 1)
    r = rng.random()
    if r < 0.4: return [5, [2, a(), [21, key, 1]], [20, key, rng.randint(0, 1)]]        # x.as_global_state(k) + GlobalStateGetter(k)
    if r < 0.6: return [2, [5, a(), [21, key, 0]], [5, [1], [20, key, 1]]]               # x.set_global_state(k, []) >> (Identity + Getter(k, []))
    if r < 0.8: return [5, a(), [20, rng.randint(0, 1), rng.randint(0, 1)]]               # a getter of a key nobody set
    return [2, [2, a(), [21, key, 1]], [2, [20, key, 0], a()]]                           # store, then continue from the stored list
  # lists: chunk, map an operation over the chunks, flatten
  inner = gen_expr(rng, max(d - 1, 1)) if rng.random() < 0.5 else P([2, gen_recomb(rng)])
  return [2, [2, [2, a(), P([3, rng.choice([1, 2, 2, 3])])], [16, inner]], [17, rng.choice([[], [], [1], [2]])]]

# ------------------------------------------------------------------------------------------------
def prim_catalog():
  """Every operator class x parameterisation (the systematic part of the sweep)."""
  sels = []
  for n in ([0, 0], [0, 1], [0, 2], [0, 5], [1, 1, 1], [1, 3, 2], [2]):
    sels += [[0, n, 0], [0, n, 1], [1, n, 0], [1, n, 1], [1, n, 2], [2, n, 0], [2, n, 1], [2, n, 2], [3, n, 0], [3, n, 1], [4, n, 0], [4, n, 1], [5, n], [6, n]]
  muts = [[m, w] for m in (0, 1) for w in (NW_ALL, [1, 0, 0], [0, 1, 0])]
  recs = [[0, kd, w, wf] for kd in range(4) for w in ([0], [1, 1], [1, 2], [2]) for wf in (0, 1)]
  recs2 = [[1, k] for k in (1, 2, 3)] + [[2, c] for c in ([], [1], [1, 2], [2, 1], [0, 9])] + \
          [[3, pk, w] for pk in range(3) for w in ([1, 1], [0], [1, 2], [2])]
  return [P([0, s]) for s in sels], [P([1, m]) for m in muts], [P([2, r]) for r in recs], [P([2, r]) for r in recs2]

def _perm(n, loc): return C(n, [E] * n, True, False, loc)
def _pd(*lists): return [('c', [(v, []) for v in l]) for l in lists]
CORPUS = [
    # (name, spec, expr, pop, seed): the witnesses of the findings (all repaired in /repo) and hand-picked shapes
    ('where-any-conditional', ('S', [C(1, [('S', [C(1, [E, E], False, False, 'i')]), ('S', [C(1, [E, E, E], False, False, 'j')]), E], False, False, 'x'),
                                     C(1, [E, E], False, False, 'y')]),
     P([2, [0, 0, [1, 1], 0]]), [['d', 0, [('c', [(0, [('c', [(1, [])])])]), ('c', [(0, [])])], 1.0], ['d', 1, [('c', [(1, [('c', [(2, [])])])]), ('c', [(1, [])])], 2.0]], 2),
    ('oracle-only/average-rounding', ('S', [('F', 0.0, 0.1, ('x',), None)]), P([2, [0, 2, [0], 0]]), [['d', i, [('f', 0.1)], 1.0] for i in range(3)], 0),
    ('oracle-only/weighted-average-rounding', ('S', [('F', 0.2, 0.2, ('x',), None)]), P([2, [0, 3, [0], 1]]), [['d', i, [('f', 0.2)], f] for i, f in enumerate([0.1, 0.3, 0.7])], 0),
    ('kpoint-adopts-parent-root', ('S', [C(1, [('S', [C(1, [E, E], False, False, 'i')]), E, E, E], False, False, 'x')]), P([2, [1, 1]]),
     [['d', 0, [('c', [(0, [('c', [(1, [])])])])], 1.0], ['d', 1, [('c', [(2, [])])], 2.0]], 1),
    ('pmx-adopts-parent-root', ('S', [C(1, [('S', [_perm(3, 'p')]), E], False, False, 'x')]), P([2, [3, 0, [0]]]),
     [['d', 0, [('c', [(0, _pd([0, 1, 2]))])], 1.0], ['d', 1, [('c', [(0, _pd([2, 0, 1]))])], 2.0]], 1),
    ('global-state/getter-unset-key', ('S', [C(1, [E, E, E], False, False, 'x')]), [5, P([0, [5, [0, 1]]]), [20, 0, 0]], [['d', 0, [('c', [(0, [])])], 1.0], ['d', 1, [('c', [(2, [])])], 2.0]], 0),
    ('global-state/getter-default', ('S', [C(1, [E, E, E], False, False, 'x')]), [5, P([0, [5, [0, 1]]]), [20, 0, 1]], [['d', 0, [('c', [(0, [])])], 1.0], ['d', 1, [('c', [(2, [])])], 2.0]], 0),
    ('global-state/store-and-read', ('S', [C(1, [E, E, E], False, False, 'x')]), [5, [2, P([0, [6, [0, 1]]]), [21, 1, 1]], [5, [20, 1, 0], [20, 1, 0]]],
     [['d', 0, [('c', [(0, [])])], 1.0], ['d', 1, [('c', [(2, [])])], 2.0]], 0),
    ('global-state/set-constant', ('S', [C(1, [E, E, E], False, False, 'x')]), [2, [5, P([1, [0, NW_ALL]]), [21, 0, 0]], [5, [1], [20, 0, 0]]],
     [['d', 0, [('c', [(0, [])])], 1.0], ['d', 1, [('c', [(2, [])])], 2.0]], 3),
    ('global-state/plain-operand-has-its-own', ('S', [C(1, [E, E, E], False, False, 'x')]), [2, [2, P([0, [5, [0, 1]]]), [21, 0, 1]], [19, [20, 0, 1]]],
     [['d', 0, [('c', [(0, [])])], 1.0], ['d', 1, [('c', [(2, [])])], 2.0]], 0),
    ('repeat-plain-callable', ('S', [C(1, [E, E, E], False, False, 'x')]), [8, 2, [19, P([0, [5, [0, 1]]])]],
     [['d', 0, [('c', [(0, [])])], 1.0], ['d', 1, [('c', [(2, [])])], 2.0]], 0),
] + [
    ('dead-object-ids/%d' % i, ('S', [C(1, [E, E, E, E], False, False, 'x'), C(1, [E, E], False, False, 'y')]),
     [6 if i % 2 else 4, [19, P([1, [0, NW_ALL]])], P([1, [0, NW_ALL]])],
     [['d', j, [('c', [(j % 4, [])]), ('c', [(j % 2, [])])], 1.0] for j in range(6)], i)
    for i in range(40)
] + [
    ('permutation-default-where-seeded/%d' % sd, ('S', [_perm(4, 'x'), _perm(3, 'y'), _perm(3, 'z')]), P([2, [3, pk, [1, 1]]]),
     [['d', 0, _pd([0, 1, 2, 3], [0, 1, 2], [2, 1, 0]), 1.0], ['d', 1, _pd([3, 2, 1, 0], [2, 0, 1], [0, 1, 2]), 2.0]], sd)
    for sd in range(1, 7) for pk in (0, 1, 2)
]

GENERATED = {'Gen/EvoSrc.v': evo_src.translate}

def run(ctx):
  info = ctx.regen('Gen/EvoSrc.v', evo_src.translate)
  src_changed = [] if info is not None else evo_src.changed(REPO_DIR())
  ctx.extra['source_pins'] = dict(pinned=len(evo_src.PINS), changed=src_changed)
  ctx.build()
  if ctx.thorough:
    # the small-scope theorem for 5 values (about 50 s of vm_compute) is an extra obligation of the thorough tier
    from harness.lib import coqrun
    ok, log, dt = coqrun.build(['Proofs/EvoPermSmall5.vo'])
    ctx.extra['permutation_crossovers_5_values'] = dict(built=ok, seconds=round(dt, 1), what='pmx_small5, ox_small5, cycle_small5: exhaustive over all pairs of permutations of 5 values')
    ctx.obligations += 1; ctx.obligation_names.append('Proofs/EvoPermSmall5.v (thorough tier): PMX / Order / Cycle propose permutations for all parents of 5 values')
    if ok: ctx.discharged += 1
    else: ctx.broken.append(dict(kind='proof', name='Proofs/EvoPermSmall5.v', detail=json.dumps(coqrun.first_error(log))))
  rng = ctx.rng
  cases = []
  def has_custom(s):
    return any(p[0] == 'X' or (p[0] == 'C' and any(has_custom(c) for c in p[2])) for p in s[1])
  def add(kind, s, expr, pop, seed=None):
    cases.append(dict(kind=kind, spec=s, expr=expr, pop=pop, seed=rng.randint(0, 10 ** 6) if seed is None else seed))
  for name, s, expr, pop, seed in CORPUS:
    add('corpus:' + name, s, expr, pop, seed)
  # open findings: the witness is replayed first; when it still fails the run prints KNOWN-FINDING
  for f in ctx.open_findings():
    w = f.get('witness', {})
    if w.get('kind') == 'evolution-loop':
      for sig, what in evolution_loop_check(w['spec'], w['replay_expr'], w['seed'], w['rewards']):
        ctx.hit(sig, what, dict(kind='evolution-loop', spec=w['spec'], expr=w['replay_expr'], seed=w['seed'], rewards=w['rewards']))
  # (A) systematic: every operator class x parameterisation x specification family
  sels, muts, recs, recs2 = prim_catalog()
  fam = [('mode', s) for s in mode_specs()]
  fam += [('perm', perm_specs(rng)) for _ in range(ctx.scale(10, 60))]
  for _ in range(ctx.scale(25, 400)):
    sp = G.random_spec(rng, budget=rng.randint(1, 7), d=3, allow_inf=True)
    fam.append(('random', sp if rng.random() < 0.3 else no_custom(sp)))     # custom decision points (no random_dna_fn) in some
  per = ctx.scale(3, 12)
  for fk, s in fam:
    for p in rng.sample(muts, min(len(muts), per)):
      add('mutator/' + fk, s, p, gen_pop(rng, s, rng.randint(1, 3)))
    for p in rng.sample(recs, min(len(recs), per + 2)):
      add('pointwise/' + fk, s, p, gen_pop(rng, s, rng.choice([1, 2, 2, 3, 4]), fres=rng.randrange(12)))
    for p in rng.sample(recs2, min(len(recs2), per + 2)):
      add('two-parent/' + fk, s, p, gen_pop(rng, s, rng.choice([2, 2, 2, 2, 1, 3]), alias=0.05))
    for p in rng.sample(sels, min(len(sels), per)):
      add('selector/' + fk, s, p, gen_pop(rng, s, rng.choice([0, 1, 3, 5, 6]), fitness=rng.random() < 0.9))
  # (B) random operator expressions of depth <= 4 built with the real overloads
  for _ in range(ctx.scale(500, 6000)):
    fk, s = rng.choice(fam)
    add('expression/' + fk, s, gen_expr(rng, rng.choice([2, 3, 3, 4, 4])), gen_pop(rng, s, rng.choice([0, 1, 2, 3, 4, 6]), fres=rng.randrange(12)))
  # (W) systematic weights: ties, near-ties, zeros, one dominant
  for s, expr, pop in weight_cases(ctx, rng):
    add('weights/' + prim_names(expr)[0].split('.')[-1], s, expr, pop)
  # (A2) algebra: composition operator x inner selection class x population size (also judged by the independent interpreter below)
  alg_jobs = algebra_jobs(ctx, rng, full=ctx.thorough or bool(src_changed))
  for j in (alg_jobs if ctx.thorough else rng.sample(alg_jobs, min(len(alg_jobs), 700))):
    add('algebra/' + j['label'].split('(')[0], j['spec'], j['expr'], j['pop'], j['seed'])
  # (C) oracle only: float ranges / values off the model's 1/64 grid
  for s, expr, pop in nondyadic_cases(rng, ctx.scale(60, 600)):
    add('oracle-only/nondyadic-floats', s, expr, pop)
  ctx.log('generated %d cases' % len(cases))
  # the independent algebra oracle runs first (it is the first thing to look at when the source pins fired)
  ctx.extra['algebra_sweep'] = dict(cases=len(alg_jobs), full=bool(ctx.thorough or src_changed), hits=algebra_sweep(ctx, alg_jobs),
                                    what='composition operator x inner selection (fewer / exactly len(pop) / more items; duplicates; non-members) x population size 0..8 against an independent interpreter of the documented meaning')
  for i, c in enumerate(cases): c['det'] = (i % 3 == 0)
  import os, time
  nproc = min(12, os.cpu_count() or 1)
  # wall-clock guard of the quick tier: the systematic part always runs; the random expressions are cut to what fits
  corpus_cases = [c for c in cases if c['kind'].startswith('corpus:') or 'corpus:' in c['kind']]
  cid = set(id(c) for c in corpus_cases)
  groups = {}
  for c in cases:
    if id(c) not in cid: groups.setdefault(id(c['spec']), []).append(c)       # one group per specification object (workers cache the built spec)
  groups = list(groups.values())
  if not ctx.thorough: rng.shuffle(groups)       # every slice is a sample of the families; slices run while the clock allows
  slices, cur = [], list(corpus_cases)
  for g in groups:
    for i in range(0, len(g), 120):              # big groups (weights, empty space) are spread too
      cur += g[i:i + 120]
      if len(cur) >= 500: slices.append(cur); cur = []
  if cur: slices.append(cur)
  done, results, skipped = [], [], 0
  for k, sl in enumerate(slices):
    if k > 0 and time.time() - ctx.t0 > (720.0 if ctx.thorough else 45.0):
      skipped += len(sl); continue
    results += run_jobs(process_case, sl, nproc); done += sl
  if skipped:
    ctx.log('wall-clock guard: %d of %d generated cases not run' % (skipped, len(cases)))
    ctx.extra['wall_clock_guard'] = dict(cases_generated=len(cases), cases_run=len(done))
  cases = done
  trs, impl, descr = [], [], []
  inexact = 0
  checked = sum(r['contract'][0] for r in results); broken = [b for r in results for b in r['contract'][1]]
  ctx.extra['prng_contract'] = dict(draws_checked=checked, violations=len(broken), rule='every recorded draw satisfies Proofs/EvoBase.v rng_ok')
  if broken:
    ctx.broken.append(dict(kind='assumption', name='rng_ok (random.Random contract)', detail=broken[0]))
  for c, r in zip(cases, results):
    for name, key in r['hists']: ctx.hist(name, key)
    case = dict(spec=c['spec'], expr=c['expr'], pop=c['pop'], seed=c['seed'])
    for sig, what in r['hits']:
      ctx.hit(sig, what, case)
    if r['out'] is None or 'oracle-only' in c['kind']:
      inexact += 1; ctx.hist('case_kinds', c['kind'] if 'oracle-only' in c['kind'] else 'skipped-inexact/' + c['kind'].split('/')[0]); continue
    t = [G.spec_tr(c['spec']), c['expr'], pop_tr(c['pop']), r['draws']]
    trs.append(t); impl.append(r['out']); descr.append(case)
    ctx.count(trlib.to_line(t), nontrivial=r['nontrivial'], kind=c['kind'],
              sample=dict(kind=c['kind'], spec=G.describe(c['spec']), expr=c['expr'], population=len(c['pop']), draws=r['draws'][:6])
              if r['nontrivial'] and len(ctx.samples) < 6 and rng.random() < 0.02 else None)
  ctx.extra['skipped_inexact_float_average'] = inexact
  outs = ctx.model_run(trs)
  lookup = {id(t): d for t, d in zip(trs, descr)}
  bad = ctx.compare('EvoRun.run vs pyglove.ext.evolution (recorded PRNG)', trs, impl, outs, describe=lambda t: lookup.get(id(t)))
  ctx.exhaustive = False
  partition_sweep(ctx, rng)
  ctx.extra['crossover_sweep'] = dict(exhaustive=True, max_values=ctx.scale(4, 5), evaluations=crossover_sweep(ctx, ctx.scale(4, 5)),
                                      what='every pair of parent permutations x every pair of cutting points (PMX, Order) / every coin-flip sequence (Cycle): proposals are permutations')
  def left(full):
    """On a busy machine the sweeps after the correspondence shrink with the time that is left (reported in the evidence)."""
    import time
    total, window = (1200.0, 500.0) if ctx.thorough else (90.0, 45.0)
    f = min(1.0, max(0.15, (total - (time.time() - ctx.t0)) / window))
    if f < 1.0: ctx.extra.setdefault('wall_clock_guard_sweeps', []).append(round(f, 2))
    return max(1, int(full * f))
  ctx.extra['evolution_loop_cases'] = evolution_loop_sweep(ctx, rng, left(ctx.scale(60, 400)))
  ctx.extra['nsga2_operator_cases'] = nsga2_sweep(ctx, rng, left(ctx.scale(150, 2000)))
  ctx.extra['systematic_sweep'] = dict(mode_specs=len(mode_specs()), selectors=len(sels), mutators=len(muts), pointwise=len(recs), two_parent=len(recs2))
  # chained closure search, always on (small budget): sparse and dense constrained multi-choices, also beyond the model's 8 candidates
  chain_specs = [s for s in sparse_specs(12) if len(s[1]) == 1] + [('S', [C(2, [E] * 3, True, False, 'm')]), ('S', [C(3, [E] * 3, True, True, 'm')])]
  chain_search(ctx, rng, chain_specs, CHAIN_OPS[:2], ctx.scale(2, 12), left(ctx.scale(25, 50)), 'always/mutators')
  chain_search(ctx, rng, rng.sample(chain_specs, ctx.scale(6, len(chain_specs))), CHAIN_OPS[2:], ctx.scale(1, 4), left(ctx.scale(15, 30)), 'always/recombinators')
  # targeted: when the correspondence of a randomised operator broke and nothing failed yet, chain the operators of the
  # disagreeing cases on their own specifications (and on the sparse family) over many seeds and generations
  if ctx.is_broken() and not ctx.hits and (bad or src_changed):
    import time
    targets, seen_t = [], set()
    # the operators whose pinned source changed, on the sparse / dense constrained family
    wanted = set(n for k in src_changed for n in evo_src.EXERCISED_BY.get(k, []))
    for e in [P(x) for x in ([[1, [0, NW_ALL]], [1, [1, NW_ALL]]] + [[2, r] for r in ([0, 0, [0], 0], [0, 1, [1, 1], 1], [0, 2, [0], 0], [0, 3, [0], 1], [1, 2], [2, [1]], [3, 0, [0]], [3, 1, [0]], [3, 2, [0]])])]:
      if set(prim_names(e)) & wanted:
        for sp in rng.sample(chain_specs, 3) + ([perm_specs(rng)] if e[1][1][0] == 3 else []):
          targets.append((sp, e))
    for i in bad:
      d = descr[i]
      for e in [x for x in all_prims(d['expr']) if x[1][0] in (1, 2)]:
        key = (repr(d['spec']), repr(e))
        if key not in seen_t and len(targets) < 12:
          seen_t.add(key); targets.append((d['spec'], e))
    t_end = time.time() + ctx.scale(30, 600)
    for sp, e in targets[:ctx.scale(5, 12)]:
      if time.time() > t_end or ctx.hits: break
      chain_search(ctx, rng, [sp], [e], ctx.scale(12, 64), ctx.scale(30, 60), 'targeted/own-spec')
    ops_t = []
    for _, e in targets:
      if repr(e) not in [repr(x) for x in ops_t]: ops_t.append(e)
    if not ctx.hits and time.time() < t_end:
      chain_search(ctx, rng, chain_specs if ctx.thorough else rng.sample(chain_specs, 8), ops_t[:ctx.scale(2, 3)], ctx.scale(4, 64), ctx.scale(30, 60), 'targeted/sparse-family')
  # violation search on the disagreeing cases first (the oracle has already run on every case)
  if ctx.is_broken() and not ctx.hits:
    for i in bad[:50]:
      d = descr[i]
      for sig, what in oracle(d['spec'], d['expr'], d['pop'], d['seed'], determinism=True):
        ctx.hit(sig, what, d)

def crossover_sweep(ctx, nmax):
  """Exhaustive, on the implementation: for all pairs of permutations of up to nmax values, all cutting points / coin flips,
  the proposals of PMX, Order and Cycle are permutations of the parents' values."""
  import itertools
  pg, base, M, R, S, W = lib()
  pmx, ox, cx = R.PartiallyMapped(), R.Order(), R.Cycle()
  class Bits:
    def __init__(self, bits): self.bits = list(bits)
    def choice(self, seq): return seq[self.bits.pop(0) if self.bits else 0]
  n_eval = 0
  for n in range(2, nmax + 1):
    perms = [list(p) for p in itertools.permutations(range(n))]
    ident = list(range(n))
    for pa in perms:
      for pb in perms:
        outs = []
        for st in range(n):
          for en in range(st + 1, n):
            outs.append(('PartiallyMapped', (st, en), lambda: pmx.partially_mapped_crossover([list(pa), list(pb)], st, en)))
            outs.append(('Order', (st, en), lambda: ox.order_crossover([list(pa), list(pb)], st, en)))
        for bits in itertools.product((0, 1), repeat=n):
          def cyc(bits=bits):
            cx._random = Bits(bits); return cx.cycle_crossover([list(pa), list(pb)])
          outs.append(('Cycle', bits, cyc))
        for name, par, fn in outs:
          n_eval += 1
          try:
            kids = fn(); ok = len(kids) == 2 and all(sorted(k) == ident for k in kids); why = repr(kids)
          except Exception as e:   # pylint: disable=broad-except
            ok = False; why = '%s: %s' % (type(e).__name__, e)
          if not ok:
            ctx.hit('C14/permutation-proposal/recombinators.%s/not-a-permutation' % name,
                    '%s on parents %r, %r with %r proposes %s' % (name, pa, pb, par, why), dict(kind='crossover-sweep', op=name, pa=pa, pb=pb, par=list(par)))
            return n_eval
  return n_eval

def spec_features(s):
  out = set()
  def sp(s, d):
    out.add('elements=%d' % min(len(s[1]), 3) if d == 0 else 'nested-elements=%d' % min(len(s[1]), 3))
    for p in s[1]:
      if p[0] == 'F': out.add('float'); continue
      if p[0] != 'C': out.add('custom'); continue
      out.add('choice k=%s%s%s n=%s' % ('1' if p[1] == 1 else '>1', ' distinct' if p[3] else '', ' sorted' if p[4] else '', 'k' if p[1] == len(p[2]) else '>k' if p[1] < len(p[2]) else '<k'))
      if any(c[1] for c in p[2]): out.add('conditional depth>=%d' % (d + 1))
      for c in p[2]: sp(c, d + 1)
  sp(s, 0)
  return sorted(out)

def nsga2_check(fitness, alias):
  """The NSGA-II operators on one population (fitness tuples; alias[i] = index of the object at position i). Returns hits."""
  import importlib
  pg, base, M, R, S, W = lib()
  nsga2 = importlib.import_module('pyglove.ext.evolution.nsga2')
  spec = pg.dna_spec(pg.oneof([0, 1, 2, 3]))
  dom = lambda a, b: all(x >= y for x, y in zip(a, b)) and any(x > y for x, y in zip(a, b))
  objs = []
  for i, f in enumerate(fitness):
    d = pg.DNA(i % 4, spec=spec); base.set_fitness(d, tuple(float(x) for x in f)); objs.append(d)
  pop = [objs[j] for j in alias]
  before = [pg.to_json_str(o) for o in objs]
  ids = sorted(id(o) for o in pop)
  hits = []
  def fail(op, disc, what):
    hits.append(('C14/selector-members/nsga2.%s/%s' % (op, disc), what))
  try:
    fronts = nsga2.nondominated_sort()(pop)
    if sorted(id(o) for f in fronts for o in f) != ids:
      fail('nondominated_sort', 'not-a-partition', 'the frontiers are not a partition of the input population'); return hits
    fit = base.get_fitness
    for i, f in enumerate(fronts):
      later = [y for g in fronts[i:] for y in g]
      if any(dom(fit(y), fit(x)) for x in f for y in later):
        fail('nondominated_sort', 'dominated-member', 'a member of frontier %d is dominated by a member of the same or a later frontier' % i); break
      if i > 0 and any(not any(dom(fit(y), fit(x)) for y in fronts[i - 1]) for x in f):
        fail('nondominated_sort', 'frontier-too-late', 'a member of frontier %d is not dominated by any member of frontier %d' % (i, i - 1)); break
    for f in fronts:
      g = nsga2.crowding_distance_sort()(list(f))
      if sorted(id(o) for o in g) != sorted(id(o) for o in f):
        fail('crowding_distance_sort', 'not-a-permutation', 'the sorted frontier is not a permutation of the frontier'); break
    pipe = lambda: (base.Lambda(nsga2.nondominated_sort()).for_each(nsga2.crowding_distance_sort()).flatten())(list(pop))
    a, b = pipe(), pipe()
    if sorted(id(o) for o in a) != ids:
      fail('pipeline', 'not-a-permutation', 'nondominated_sort >> for_each(crowding_distance_sort) >> flatten does not return exactly the members of its input')
    elif [id(o) for o in a] != [id(o) for o in b]:
      fail('pipeline', 'nondeterministic', 'two runs on the same population give different orders')
    if before != [pg.to_json_str(o) for o in objs]:
      fail('pipeline', 'input-modified', 'pg.to_json of the input DNAs changed')
  except Exception as e:   # pylint: disable=broad-except
    hits.append(('C14/raises/nsga2/%s' % msg_key(e), 'the NSGA-II operators raise %s on a population with tuple fitness: %s' % (type(e).__name__, str(e)[:160])))
  return hits

def nsga2_sweep(ctx, rng, n):
  """Oracle only: the NSGA-II operators (nondominated_sort, crowding_distance_sort and the pipeline the package composes from
  them) return exactly the members of their input, keep the inputs unchanged and are functions of their input."""
  for _ in range(n):
    m = rng.choice([0, 1, 2, 3, 5, 8]); k = rng.choice([1, 2, 2, 3])
    fitness = [[rng.randint(0, 3) for _ in range(k)] for _ in range(m)]
    alias = [rng.randrange(m) if rng.random() < 0.1 else i for i in range(m)]
    for sig, what in nsga2_check(fitness, alias):
      ctx.hit(sig, what, dict(kind='nsga2', fitness=fitness, alias=alias))
  return n

LOOP_STOP = ['There is no child reproduced', 'supports recombination on exact', 'Immutable DNA', 'Total of weights must be', 'The input is expected to be a list',
             'list index out of range', 'Cannot choose from an empty sequence', 'Sample larger than population']
def evolution_loop_check(spec_t, expr, seed, rewards, init=4, keep=6):
  """The expression as the reproduction operation of base.Evolution (population_update = Last(keep)): proposing must not
  change the population (its list, its members, their metadata), and every proposal is a valid DNA that is not a population member."""
  import itertools
  pg, base, M, R, S, W = lib()
  spec, _ = pg_spec(spec_t)
  hits = []
  try:
    op = Builder(seeds=itertools.count(seed)).build(expr)
    algo = base.Evolution(op, population_init=(pg.geno.Random(seed=seed), init), population_update=S.Last(keep))
    algo.setup(spec)
  except Exception as e:   # pylint: disable=broad-except
    return [('C14/raises/Evolution.setup/%s' % msg_key(e), 'setting up Evolution with the expression raises %s: %s' % (type(e).__name__, str(e)[:160]))]
  for t, rw in enumerate(rewards):
    snap = [(id(d), pg.to_json_str(d)) for d in algo.population]
    try:
      d = algo.propose()
    except Exception as e:   # pylint: disable=broad-except
      if isinstance(e, (KeyError, ZeroDivisionError)) or any(m in str(e) for m in LOOP_STOP): break      # the expression refuses this population
      hits.append(('C14/raises/Evolution.propose/%s' % msg_key(e), 'propose() raises %s at step %d: %s' % (type(e).__name__, t, str(e)[:160]))); break
    now = [(id(x), pg.to_json_str(x)) for x in algo.population]
    if [i for i, _ in now] != [i for i, _ in snap]:
      hits.append(('C14/input-modified/Evolution._evolve/population-list-rewritten',
                   'propose() at step %d replaced members of the population (the reproduction returned its input list and _evolve overwrote its items with clones)' % t)); break
    if now != snap:
      hits.append(('C14/input-modified/Evolution._evolve/member-metadata', 'propose() at step %d changed the JSON form (metadata) of a population member' % t)); break
    if any(d is m for m in algo.population):
      hits.append(('C14/input-modified/Evolution._evolve/proposal-is-a-member', 'the proposal of step %d is a population member itself (not a clone)' % t)); break
    try:
      spec.validate(d)
    except Exception as e:   # pylint: disable=broad-except
      hits.append(('C14/child-invalid/Evolution.propose/%s' % msg_key(e), 'the proposal of step %d is not valid: %s' % (t, str(e)[:160]))); break
    algo.feedback(d, rw)
  return hits

def evolution_loop_job(j):
  try:
    return evolution_loop_check(j['spec'], j['expr'], j['seed'], j['rewards'])
  except Exception as e:   # pylint: disable=broad-except
    return [('C14/raises/Evolution.loop/%s' % msg_key(e), 'the Evolution loop raises %s: %s' % (type(e).__name__, str(e)[:160]))]

def evolution_loop_sweep(ctx, rng, n):
  import os
  specs = [s for s in mode_specs() if not any(p[0] == 'X' for p in s[1])][:40]
  fixed = [[2, P([1, [0, NW_ALL]]), P([0, [0, [0, 3], 1]])],       # Uniform >> Random(3, replacement=True): the same new object several times
           [1], [13, [2, 2], P([1, [0, NW_ALL]])], [15, 3, [P([1, [0, NW_ALL]])], []], [9, 0, P([1, [0, NW_ALL]])],
           [2, P([0, [0, [0, 2], 0]]), [13, [1, 2], P([2, [1, 1]])]], [2, [2, P([0, [0, [0, 3], 0]]), P([0, [3, [0, 1], 0]])], P([1, [0, NW_ALL]])]]
  jobs = []
  for i in range(n):
    jobs.append(dict(kind='evolution-loop', spec=rng.choice(specs), expr=fixed[i] if i < len(fixed) else gen_expr(rng, rng.choice([1, 2, 2, 3])),
                     seed=rng.randint(0, 999), rewards=[rng.randint(0, 8) / 4.0 for _ in range(rng.choice([8, 12, 16]))]))
  for j, hits in zip(jobs, run_jobs(evolution_loop_job, jobs, min(12, os.cpu_count() or 1))):
    for sig, what in hits:
      ctx.hit(sig, what, j)
  return len(jobs)

def chain_job(j):
  """Chained closure search: the operator applied generation after generation to its own children (mutators: one lineage;
  recombinators: a population of 4), every step run and judged exactly like an ordinary case, so that a failing step IS a
  replayable case (specification, parents of that step, seed of that step)."""
  rng = pyrandom.Random(j['seed'])
  s, expr = j['spec'], j['expr']
  two = expr[0] == 0 and expr[1][0] == 2 and expr[1][1][0] != 0
  is_mut = expr[0] == 0 and expr[1][0] == 1
  pop = [['d', i, rand_sdna(rng, s, None), rng.randint(0, 8) / 4.0] for i in range(1 if is_mut else 4)]
  steps = 0
  for g in range(j['gens']):
    if is_mut: parents = pop
    else:
      idx = rng.sample(range(len(pop)), 2) if two else rng.sample(range(len(pop)), rng.choice([2, 2, 3]))
      parents = [['d', n, pop[i][2], pop[i][3]] for n, i in enumerate(idx)]
    seed = j['seed'] * 1000003 + g
    try:
      res = impl_run(s, expr, parents, seed)
      hits = oracle(s, expr, parents, seed, res=res, determinism=False)
    except Exception as e:   # pylint: disable=broad-except
      hits = [('C14/raises/driver/%s' % msg_key(e), 'running a chain step raises %s: %s' % (type(e).__name__, str(e)[:160]))]
      res = dict(exc=e)
    steps += 1
    if hits:
      return dict(hits=hits, case=dict(spec=s, expr=expr, pop=parents, seed=seed), steps=steps, generation=g)
    if res.get('exc') is not None: continue
    kids = [sdna_of(s, c) for c in res.get('news', [])]
    kids = [k for k in kids if k is not None]
    if is_mut:
      if kids: pop = [['d', 0, kids[0], pop[0][3]]]
    else:
      for k in kids[:2]:
        pop[rng.randrange(len(pop))] = ['d', 0, k, rng.randint(0, 8) / 4.0]
      pop = [['d', i, x[2], x[3]] for i, x in enumerate(pop)]
  return dict(hits=[], case=None, steps=steps, generation=None)

CHAIN_OPS = [P([1, [0, NW_ALL]]), P([1, [1, NW_ALL]]), P([2, [0, 0, [0], 0]]), P([2, [0, 1, [1, 1], 1]]), P([2, [1, 2]])]
def chain_search(ctx, rng, specs, ops, nseeds, gens, label):
  import os
  jobs = [dict(spec=s, expr=e, seed=rng.randint(0, 10 ** 6), gens=gens) for s in specs for e in ops for _ in range(nseeds)]
  found = []
  steps = 0
  for j, r in zip(jobs, run_jobs(chain_job, jobs, min(12, os.cpu_count() or 1))):
    steps += r['steps']
    if r['hits']: found.append(r)
  seen = set()
  for r in found:
    for sig, what in r['hits']:
      if sig in seen: continue
      seen.add(sig)
      case = shrink_case(r['case'], sig)
      ctx.hit(sig, what + ' [found by the chained search after %d generations; shrunk]' % r['generation'], case)
  ctx.extra.setdefault('chain_search', []).append(dict(label=label, lineages=len(jobs), generations_each=gens, steps=steps, failing_lineages=len(found)))
  return found

def shrink_case(case, sig):
  """Greedy shrinking of a failing case, keeping the signature: fewer parents, fewer top-level elements of the specification
  (with the corresponding decisions of every parent)."""
  def fails(c):
    try:
      return any(h[0] == sig for h in oracle(c['spec'], c['expr'], c['pop'], c['seed'], determinism=sig.startswith('C14/nondeterministic')))
    except Exception:   # pylint: disable=broad-except
      return False
  cur = dict(case)
  changed = True
  while changed:
    changed = False
    for i in range(len(cur['pop'])):
      if len(cur['pop']) <= 1: break
      c = dict(cur, pop=[[x[0], n, x[2], x[3]] for n, x in enumerate(cur['pop'][:i] + cur['pop'][i + 1:])])
      if fails(c): cur = c; changed = True; break
    if changed: continue
    els = cur['spec'][1]
    for i in range(len(els)):
      if len(els) <= 1: break
      c = dict(cur, spec=('S', list(els[:i]) + list(els[i + 1:])), pop=[[x[0], x[1], list(x[2][:i]) + list(x[2][i + 1:]), x[3]] for x in cur['pop']])
      if fails(c): cur = c; changed = True; break
  return cur

# ------------------------------------------------------------------------------------------------
# systematic weight sweep (Proportional / Sample / Top / Bottom): ties, near-ties, zeros, one dominant weight
WEIGHT_ALPHABET = [0, 1, 2, 3, 4, 5, 9, 10]
W_SPEC = ('S', [C(1, [E, E, E, E], False, False, 'x')])

def partition_vectors(ctx, rng):
  """(weights, n) for Proportional._partition: exhaustive over the alphabet up to a length, sampled beyond."""
  import itertools
  out = []
  full = ctx.scale(3, 5)
  for ln in range(2, full + 1):
    for ws in itertools.product(WEIGHT_ALPHABET, repeat=ln):
      for n in range(0, 2 * ln + 1): out.append((list(ws), n))
  for _ in range(ctx.scale(6000, 300000)):
    ln = rng.randint(full + 1, 6) if full < 6 else 6
    out.append(([rng.choice(WEIGHT_ALPHABET) for _ in range(ln)], rng.randint(0, 2 * ln)))
  return out, full

def partition_sweep(ctx, rng):
  """Proportional._partition on the implementation against the model's [partition] and the count oracle
  (the allocations are non-negative and add up to n) on every vector."""
  pg, base, M, R, S, W = lib()
  sel = S.Proportional(None, weights=lambda xs: [1.0] * len(xs))
  vecs, full = partition_vectors(ctx, rng)
  trs, impl = [], []
  for ws, n in vecs:
    try:
      al = sel._partition([float(w) for w in ws], n)
      impl.append([1, [int(a) for a in al]])
      if sum(al) != n or any(a < 0 for a in al):
        ctx.hit('C14/selector-count/selectors.Proportional/partition-%s' % ('negative-slot' if any(a < 0 for a in al) else 'wrong-total'),
                'Proportional._partition(%r, %d) = %r: %s' % (ws, n, al, 'a slot is negative (the positive ones give %d items)' % sum(a for a in al if a > 0) if any(a < 0 for a in al) else 'the allocations add up to %d' % sum(al)),
                dict(kind='partition', weights=ws, n=n))
    except Exception as e:   # pylint: disable=broad-except
      impl.append([0, err_code(e)])
      if not isinstance(e, ZeroDivisionError):
        ctx.hit('C14/raises/selectors.Proportional/%s' % msg_key(e), 'Proportional._partition(%r, %d) raises %s: %s' % (ws, n, type(e).__name__, e), dict(kind='partition', weights=ws, n=n))
    trs.append([5, ws, n])
  outs = ctx.model_run(trs, vm_sample=ctx.scale(20, 100))
  ctx.compare('EvoOps.partition vs selectors.Proportional._partition', trs, impl, outs, describe=lambda t: dict(kind='partition', weights=t[1], n=t[2]))
  for t in trs[:: max(1, len(trs) // 2000)]: ctx.count(trlib.to_line(t), nontrivial=sum(1 for w in t[1] if w) >= 2 and t[2] > 0, kind='partition-sweep')
  ctx.extra['partition_sweep'] = dict(vectors=len(trs), alphabet=WEIGHT_ALPHABET, exhaustive_up_to_length=full, n_range='0..2*len',
                                      what='Proportional._partition: implementation vs model on every vector, allocations non-negative and adding up to n')

def weight_cases(ctx, rng):
  """Selector-level cases on populations whose fitness values come from the weight alphabet: Proportional / Sample with the
  fitness itself and fitness + 0.25 as weights, Top / Bottom with and without clusters, n from 0 to 2 * len."""
  out = []
  for _ in range(ctx.scale(500, 4000)):
    ln = rng.randint(2, 6)
    kind = rng.random()
    if kind < 0.2: fits = [rng.choice([1, 5, 5, 4])] * ln                                     # all equal
    elif kind < 0.4: fits = [rng.choice([0, 1, 1, 2]) for _ in range(ln - 1)] + [rng.choice([9, 10])]   # one dominant
    else: fits = [rng.choice(WEIGHT_ALPHABET) for _ in range(ln)]
    rng.shuffle(fits)
    pop = [['d', i, [('c', [(rng.randrange(4), [])])], float(f)] for i, f in enumerate(fits)]
    n = [0, rng.randint(0, 2 * ln)]
    sl = rng.choice([[2, n, 2], [2, n, 2], [2, n, 1], [1, n, 2], [1, n, 1], [3, n, 0], [3, n, 1], [4, n, 0], [4, n, 1]])
    out.append((W_SPEC, P([0, sl]), pop))
  return out

# ------------------------------------------------------------------------------------------------
# systematic algebra sweep: every composition operator x inner selections returning fewer / exactly len(pop) / more items
# than the population, with and without duplicates, members and freshly created non-members x population sizes 0..8,
# against an INDEPENDENT interpreter of the documented meaning (Operation docstring) and, as ordinary cases, against the model
ALG_CLASS = {2: 'Pipeline', 3: 'Union', 4: 'Intersection', 5: 'Concatenation', 6: 'Difference', 7: 'SymmetricDifference', 8: 'Repeat', 9: 'Power',
             10: 'Slice', 11: 'Slice', 12: 'Inversion', 13: 'Choice', 18: 'UntilChange'}

def alg_inner(n):
  h = n // 2
  out = [('fewer/first', P([0, [5, [0, h]]])), ('fewer/top', P([0, [3, [0, max(n - 1, 0)], 0]])), ('fewer/random', P([0, [0, [0, h], 0]])),
         ('exact/all', P([0, [5, [2]]])),
         ('exact/dups-concat', [5, P([0, [3, [0, n - h], 0]]), P([0, [5, [0, h]]])]),              # Top(n-h) + First(h): n items, members repeated
         ('exact/random-repl', P([0, [0, [2], 1]])), ('exact/proportional', P([0, [2, [2], 2]])),
         ('exact/fresh', P([1, [0, NW_ALL]])),                                                       # n new objects
         ('exact/mixed', [5, P([0, [5, [0, max(n - 1, 0)]]]), [2, P([0, [6, [0, 1]]]), P([1, [0, NW_ALL]])]]),   # First(n-1) + (Last(1) >> Uniform): one non-member
         ('more/dups', [8, 2, [1]]), ('more/plus-one', [5, [1], P([0, [3, [0, 1], 0]])]), ('more/fresh', [8, 2, P([1, [0, NW_ALL]])]),
         ('empty', P([0, [5, [0, 0]]]))]
  if n % 2 == 0: out.append(('exact/dups-repeat', [8, 2, P([0, [3, [0, h], 0]])]))                  # Top(n/2) * 2
  return out

ALG_UNARY = [('invert', lambda X: [12, X]), ('repeat2', lambda X: [8, 2, X]), ('power2', lambda X: [9, 2, X]), ('slice-1', lambda X: [10, -1, X]),
             ('slice0', lambda X: [10, 0, X]), ('slice::2', lambda X: [11, [], [], 2, X]), ('slice1:-1', lambda X: [11, [1], [-1], 1, X]),
             ('with_prob1', lambda X: [13, [4, 2], X]), ('with_prob0', lambda X: [13, [0, 2], X]), ('until2', lambda X: [18, 2, X]),
             ('for_each', lambda X: [2, [2, [2, [1], P([3, 2])], [16, X]], [17, []]])]
ALG_BINARY = [('pipe', 2), ('union', 3), ('inter', 4), ('concat', 5), ('diff', 6), ('symdiff', 7)]
ALG_Y = ['fewer/first', 'exact/dups-concat', 'exact/fresh', 'more/dups', 'exact/random-repl']

def alg_population(rng, n):
  return [['d', i, [('c', [(rng.randrange(4), [])])], float(rng.choice(WEIGHT_ALPHABET[1:]))] for i in range(n)]

def algebra_jobs(ctx, rng, full):
  jobs = []
  for n in range(0, 9):
    inner = alg_inner(n)
    ys = [e for l, e in inner if l in ALG_Y]
    for lx, X in inner:
      for lu, f in ALG_UNARY:
        jobs.append(dict(kind='algebra', label='%s(%s) n=%d' % (lu, lx, n), spec=W_SPEC, expr=f(X), pop=alg_population(rng, n), seed=rng.randint(0, 9999)))
      for lb, t in ALG_BINARY:
        for Y in (ys if full else [rng.choice(ys)]):
          jobs.append(dict(kind='algebra', label='%s(%s, …) n=%d' % (lb, lx, n), spec=W_SPEC, expr=[t, X, Y], pop=alg_population(rng, n), seed=rng.randint(0, 9999)))
  return jobs

class _Skip(Exception):
  pass

def doc_eval(expr, pop, seed):
  """Independent interpreter of the documented meaning of the composition operators (identity based), over the real
  primitives built with the seeds Builder would give them."""
  import itertools
  expr = json.loads(json.dumps(expr))          # no sub-expression object is shared: leaves are keyed by node
  b = Builder(seeds=itertools.count(seed))
  leaves = {}
  def prepare(x):       # the construction order of Builder.build
    t = x[0]
    if t == 0: leaves[id(x)] = b.prim(x[1]); return
    for y in kids(x): prepare(y)
    if t in (13, 14): b.seed()
  prepare(expr)
  ids = lambda l: set(id(o) for o in l)
  def ev(x, inp):
    t = x[0]
    if t == 0: return list(leaves[id(x)](inp))
    if t == 1: return list(inp)
    if t == 19: return ev(x[1], inp)
    if t == 2: return ev(x[2], ev(x[1], inp))
    if t in (3, 4, 5, 6, 7):
      A, B = ev(x[1], inp), ev(x[2], inp)
      if t == 5: return A + B
      if t == 6: return [o for o in A if id(o) not in ids(B)]
      if t == 7: return [o for o in A + B if (id(o) in ids(A)) != (id(o) in ids(B))]
      seen, out = set(), []
      for o in (A + B if t == 3 else [o for o in A if id(o) in ids(B)]):
        if id(o) not in seen: seen.add(id(o)); out.append(o)
      return out
    if t == 8: return [o for _ in range(max(x[1], 0)) for o in ev(x[2], inp)]
    if t == 9:
      for _ in range(max(x[1], 0)): inp = ev(x[2], inp)
      return list(inp)
    if t == 10:
      A = ev(x[2], inp)
      if not (-len(A) <= x[1] < len(A)): raise _Skip()
      r = A[x[1]]; return list(r) if isinstance(r, list) else [r]
    if t == 11: return ev(x[4], inp)[slice(x[1][0] if x[1] else None, x[2][0] if x[2] else None, max(x[3], 1))]
    if t == 12:
      sel = ids(ev(x[1], inp)); return [o for o in inp if id(o) not in sel]
    if t == 13:
      if x[1][0] not in (0, 2 ** x[1][1]): raise _Skip()
      return ev(x[2], inp) if x[1][0] else list(inp)
    if t == 16: return [ev(x[1], c) for c in inp]
    if t == 17:
      def fl(l):
        return [y for o in l for y in (fl(o) if isinstance(o, list) else [o])]
      return fl(inp)
    if t == 18:
      for _ in range(x[1]):
        out = ev(x[2], inp)
        if out != inp: break
      return out
    raise _Skip()
  return ev(expr, pop)

def algebra_check(j):
  """Hits of one algebra case: the composite built with the real overloads against the documented meaning."""
  import itertools
  try:
    spec, _ = pg_spec(j['spec'])
    inputs, objs = build_population(j['spec'], spec, j['pop'])
    ident = {id(o): k for k, o in objs.items()}
    def canon(l):
      return [canon(o) if isinstance(o, list) else (('in', ident[id(o)]) if id(o) in ident else ('new', repr(G.dna_to_tree(o)))) for o in l]
    try:
      want = canon(doc_eval(j['expr'], inputs, j['seed']))
    except Exception:   # pylint: disable=broad-except
      return []         # an operand refuses this population (or the shape is outside the interpreter): the ordinary oracle judges it
    try:
      got = canon(Builder(seeds=itertools.count(j['seed'])).build(j['expr'])(inputs))
    except Exception as e:   # pylint: disable=broad-except
      return [('C14/composition/base.%s/raises-%s' % (ALG_CLASS.get(j['expr'][0], 'ElementWise'), type(e).__name__),
               '%s: the composite raises %s (%s) where its operands and the documented meaning give %d items' % (j.get('label', ''), type(e).__name__, str(e)[:100], len(want)))]
    if got != want:
      return [('C14/composition/base.%s/differs-from-documented-meaning' % ALG_CLASS.get(j['expr'][0], 'ElementWise'),
               '%s on a population of %d: the composite returns %s, the documented meaning over the same operands is %s'
               % (j.get('label', ''), len(j['pop']), str(got)[:160], str(want)[:160]))]
    return []
  except Exception as e:   # pylint: disable=broad-except
    return [('C14/raises/algebra/%s' % msg_key(e), 'the algebra case raises %s: %s' % (type(e).__name__, str(e)[:160]))]

def algebra_sweep(ctx, jobs):
  import os
  n_hits = 0
  for j, hits in zip(jobs, run_jobs(algebra_check, jobs, min(12, os.cpu_count() or 1))):
    for sig, what in hits:
      n_hits += 1
      ctx.hit(sig, what, dict(kind='algebra', label=j['label'], spec=j['spec'], expr=j['expr'], pop=j['pop'], seed=j['seed']))
  return n_hits

def process_case(c):
  """One case in a worker process: run the implementation with the recorder, evaluate the oracle.  Never raises:
  whatever the library does on an input inside the property's quantifier is an outcome / an oracle hit with the case as replay."""
  names = prim_names(c['expr'])
  try:
    res = impl_run(c['spec'], c['expr'], c['pop'], c['seed'])
  except Exception as e:   # pylint: disable=broad-except
    return dict(out=None, draws=[], hists=[('outcome', 'driver-exception:' + type(e).__name__)], nontrivial=False, contract=(0, []),
                hits=[('C14/raises/driver/%s' % msg_key(e), 'building the objects of the case or observing the result raises %s: %s\n%s'
                       % (type(e).__name__, str(e)[:200], traceback.format_exc()[-600:]))])
  hists = [('primitives', n) for n in set(names)] + [('spec_features', f) for f in spec_features(c['spec'])] + \
          [('expression_depth', depth_of(c['expr'])), ('population_size', len(c['pop'])),
           ('draws', min(len(res['draws']), 20)), ('outcome', 'exception:' + type(res['exc']).__name__ if res['exc'] is not None else 'ok')]
  try:
    hits = oracle(c['spec'], c['expr'], c['pop'], c['seed'], res=res, determinism=c.get('det', True))
  except Exception as e:   # pylint: disable=broad-except
    hits = [('C14/raises/oracle/%s' % msg_key(e), 'evaluating the property on the result raises %s: %s\n%s'
             % (type(e).__name__, str(e)[:200], traceback.format_exc()[-600:]))]
  nt = (any(not n.startswith('selectors.') and n != 'Lambda' for n in names) and len(res['draws']) > 0) or (len(c['pop']) >= 2 and bool(names))
  return dict(out=res['out'], draws=res['draws'], hits=hits, hists=hists, nontrivial=nt, contract=res['contract'])

def run_jobs(fn, jobs, nproc):
  import multiprocessing as mp
  if nproc <= 1 or len(jobs) < 8:
    return [fn(j) for j in jobs]
  with mp.get_context('fork').Pool(nproc) as pool:
    return pool.map(fn, jobs, chunksize=max(1, len(jobs) // (nproc * 6)))

def replay(ctx, rp):
  c = rp['case']
  if c.get('kind') == 'algebra':
    hits = algebra_check(c)
    for h in hits: print('  still fails:', h)
    return not hits
  if c.get('kind') == 'partition':
    pg, base, M, R, S, W = lib()
    try:
      al = S.Proportional(None, weights=lambda xs: [1.0] * len(xs))._partition([float(w) for w in c['weights']], c['n'])
      ok = sum(al) == c['n'] and all(a >= 0 for a in al)
      if not ok: print('  still fails: _partition(%r, %d) = %r' % (c['weights'], c['n'], al))
      return ok
    except ZeroDivisionError:
      return True
    except Exception as e:   # pylint: disable=broad-except
      print('  still fails:', type(e).__name__, e); return False
  if c.get('kind') == 'evolution-loop':
    hits = evolution_loop_check(c['spec'], c['expr'], c['seed'], c['rewards'])
    for h in hits: print('  still fails:', h)
    return not hits
  if c.get('kind') == 'nsga2':
    hits = nsga2_check(c['fitness'], c['alias'])
    for h in hits: print('  still fails:', h)
    return not hits
  if c.get('kind') == 'crossover-sweep':
    pg, base, M, R, S, W = lib()
    try:
      if c['op'] == 'Cycle':
        class Bits:
          def __init__(self, bits): self.bits = list(bits)
          def choice(self, seq): return seq[self.bits.pop(0) if self.bits else 0]
        op = R.Cycle(); op._random = Bits(c['par']); kids = op.cycle_crossover([c['pa'], c['pb']])
      elif c['op'] == 'Order': kids = R.Order().order_crossover([c['pa'], c['pb']], *c['par'])
      else: kids = R.PartiallyMapped().partially_mapped_crossover([c['pa'], c['pb']], *c['par'])
      return all(sorted(k) == sorted(c['pa']) for k in kids)
    except Exception:   # pylint: disable=broad-except
      return False
  hits = oracle(c['spec'], c['expr'], c['pop'], c['seed'])
  for h in hits:
    print('  still fails:', h)
  return not hits

#!/usr/bin/env python3
"""confirm_seed.py <seeded/dir> <check_result> [note] — records what the integrator ran for a kept seeded change."""
import json, sys, os
d = sys.argv[1]; m = json.load(open(os.path.join(d, 'meta.json')))
m['confirmed_by_integrator'] = dict(
    demo_exit_original=0, demo_exit_with_patch=1,
    suite='full pinned suite run by the seeding agent with the patch applied (-n 8): only baseline failures; re-applied by harness/run_seed.sh to a scratch worktree of /repo HEAD',
    check_run='harness/run_seed.sh %s  (= patch applied to a scratch worktree of /repo HEAD, VERIF_REPO=<worktree> ./check %s --tier quick, worktree removed)' % (d, m.get('property')),
    check_result=sys.argv[2], note=sys.argv[3] if len(sys.argv) > 3 else '')
json.dump(m, open(os.path.join(d, 'meta.json'), 'w'), indent=1)

#!/bin/bash
# allthorough.sh [lanes]: every check's thorough tier, a few at a time; one summary line each in .work/thorough/<id>.txt
cd "$(dirname "$0")/.."
LANES=${1:-4}
mkdir -p .work/thorough
run_one() {
  P=$1; S=$(date +%s)
  OUT=$(./check $P --tier thorough 2>&1); RC=$?; E=$(( $(date +%s) - S ))
  echo "$OUT" > .work/thorough/$P.log
  echo "$P rc=$RC ${E}s $(echo "$OUT" | grep -c '^VIOLATION') violations :: $(echo "$OUT" | tail -1 | cut -c1-170)" | tee .work/thorough/$P.txt
}
export -f run_one
/venv/bin/python -c "import json;print('\n'.join(c['property_id'] for c in json.load(open('MANIFEST.json'))['checks']))" 2>/dev/null | xargs -P $LANES -I{} bash -c 'run_one {}'

#!/venv/bin/python
"""Regenerates MANIFEST.json (from the META of every harness/props/cXX.py) and KNOWN_FINDINGS.json
(the merge of findings/Cxx.json).  Never run by a check; run by hand after editing either source."""
import glob, importlib, json, os, sys
HERE = os.path.dirname(os.path.abspath(__file__))
VERIF = os.path.dirname(HERE)
sys.path.insert(0, VERIF)

def main():
  props = [json.loads(l) for l in open(os.path.join(VERIF, 'properties.jsonl'))]
  checks, na, engines = [], [], {}
  for p in props:
    pid = p['id']
    modp = os.path.join(HERE, 'props', pid.lower() + '.py')
    if not os.path.exists(modp):
      na.append(dict(property_id=pid, reason='no check has been built for this property yet (work in progress; see DESIGN.md)'))
      continue
    m = importlib.import_module('harness.props.' + pid.lower())
    M = m.META
    if M.get('not_applicable'):
      na.append(dict(property_id=pid, reason=M['not_applicable'])); continue
    checks.append(dict(
        property_id=pid,
        quick_cmd='./check %s --tier quick' % pid,
        thorough_cmd='./check %s --tier thorough' % pid,
        evidence_file='evidence/%s.json' % pid,
        replay_cmd_template='./check %s --replay {path}' % pid,
        engine='coq-model+correspondence',
        level_claimed=dict(category='proof', text=M['level_text'], design_ref=M.get('design_ref', 'DESIGN.md §5 ' + pid)),
        level_note=M['level_note'],
        technique=M['technique']))
  hooks = json.load(open(os.path.join(VERIF, 'hooks.json'))) if os.path.exists(os.path.join(VERIF, 'hooks.json')) else dict(
      guard='PYGLOVE_VERIF', enable='no hooks are installed; checks import /repo as it is (PYTHONPATH=/repo)',
      baseline_off_cmd='cd /repo && /venv/bin/python -m pytest -ra -q -p no:cacheprovider --timeout=900 --continue-on-collection-errors',
      source_commits=[], add_only=True)
  man = dict(
      version=1,
      setup_cmd='./setup.sh',
      hooks=hooks,
      engines=[dict(name='coq-model+correspondence', path='check',
                    serves_properties=[c['property_id'] for c in checks],
                    kind_free_text='Coq 8.16.1 models and theorems (coq/), regenerated Gen/*.v from /repo by fail-closed translators, '
                                   'differential correspondence of the executable model (extracted OCaml + vm_compute cross-check) against the implementation, '
                                   'direct property oracles for violation search')],
      checks=checks,
      not_applicable=na,
      notes='One entry point: ./check Cxx [--tier quick|thorough] [--replay F]. See DESIGN.md. KNOWN_FINDINGS.json lists open and fixed findings.')
  json.dump(man, open(os.path.join(VERIF, 'MANIFEST.json'), 'w'), indent=1)
  allf = []
  for f in sorted(glob.glob(os.path.join(VERIF, 'findings', 'C*.json'))):
    allf += json.load(open(f))['findings']
  json.dump(dict(
      note='open: the check prints KNOWN-FINDING and exits 0 while the witness still fails; fixed: repaired by the named fix: commit in /repo, suppresses nothing',
      findings=allf), open(os.path.join(VERIF, 'KNOWN_FINDINGS.json'), 'w'), indent=1)
  # validate
  try:
    import jsonschema
    jsonschema.validate(man, json.load(open('/root/.vp/MANIFEST.schema.json')))
    print('MANIFEST.json valid: %d checks, %d not_applicable; %d findings' % (len(checks), len(na), len(allf)))
  except ImportError:
    print('MANIFEST.json written (jsonschema not available to validate)')

if __name__ == '__main__':
  main()

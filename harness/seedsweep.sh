#!/bin/bash
# seedsweep.sh "<props>" "<seeds>" [lanes]: runs ./check <prop> --seed <s> for every pair (one lane per property, so a
# property is never checked twice at the same time); prints every run that is not OK.  Results in .work/seeds/.
cd "$(dirname "$0")/.."
PROPS=${1:-"C01 C02 C03 C04 C05 C06 C07 C08 C09 C10 C11 C12 C13 C14 C15 C16 C17 C18 C19 C20"}; SEEDS=${2:-"11 12 13"}; LANES=${3:-3}
mkdir -p .work/seeds
run_prop() { p=$1; shift; for s in "$@"; do ./check $p --seed $s > .work/seeds/$p-$s.txt 2>&1; echo "$p seed=$s rc=$? $(tail -1 .work/seeds/$p-$s.txt)"; done; }
export -f run_prop
echo $PROPS | tr ' ' '\n' | xargs -P $LANES -I{} bash -c "run_prop {} $SEEDS"

#!/usr/bin/env python3
"""Refreshes the generated part of DESIGN.md: section 11 (per-property as-built notes = design/Cxx.md verbatim),
section 12 (seeded changes and which checks catch them, from seeded/*/meta.json) and the findings table (from findings/*.json)."""
import glob, json, os, re
V = os.path.dirname(os.path.dirname(os.path.abspath(__file__)))
BEGIN, END = '<!-- BEGIN GENERATED AS-BUILT -->', '<!-- END GENERATED AS-BUILT -->'

def demote(md):
  # demote headings by two levels so each note nests under its "### Cxx" heading
  return re.sub(r'^(#+) ', lambda m: '#' * min(6, len(m.group(1)) + 3) + ' ', md, flags=re.M)

def main():
  out = [BEGIN, '', '## 11. As built — per-property notes (generated from design/Cxx.md by harness/mkdesign.py)', '',
         'Where a note below disagrees with the plan in §5, the note is what was built.', '']
  for f in sorted(glob.glob(os.path.join(V, 'design', 'C*.md'))):
    pid = os.path.basename(f)[:-3]
    out += ['### %s (as built)' % pid, '', demote(open(f).read().strip()), '']
  out += ['## 12. Findings on the unchanged tree (generated from findings/Cxx.json)', '',
          '| property | status | commit | what | signature |', '|---|---|---|---|---|']
  for f in sorted(glob.glob(os.path.join(V, 'findings', 'C*.json'))):
    for x in json.load(open(f))['findings']:
      out.append('| %s | %s | %s | %s | `%s` |' % (x['property'], x['status'], x.get('commit', ''), str(x.get('what', '')).replace('|', '\\|').replace('\n', ' ')[:400],
                                                 str(x.get('signature', '')).replace('|', '\\|')[:160]))
  metas = [json.load(open(f)) for f in sorted(glob.glob(os.path.join(V, 'seeded', 'C*', 'meta.json')))]
  nfirst = sum(1 for m in metas if 'caught first time' in str(m.get('confirmed_by_integrator', {}).get('note', '')))
  out += ['', '## 13. Seeded changes and which checks catch them (generated from seeded/*/meta.json)', '',
          'How the machinery was tested: in nine rounds, fresh sub-agents that were given only the text of one property and a scratch',
          'worktree of `/repo` (nothing from `/verif`) each produced one small change that breaks the property while the pinned suite',
          'still passes, with a demonstration. Each kept change (`seeded/<id>/patch.diff`, `demo.py`, `meta.json`) was applied to a',
          'scratch worktree of `/repo` HEAD and the property\'s quick check run against it (`harness/run_seed.sh`). %d changes are kept;' % len(metas),
          'in the last five rounds %d were caught with a concrete replay the first time they were run (earlier rounds are recorded in' % nfirst,
          'free text in each `meta.json`). Every miss (and every run that only reached',
          '`no-failing-input-found`) was handed to the builder of that check with the instruction to strengthen the generator or',
          'oracle *generally* (the lesson, not the patch): construct × context sweeps, history on the same object, priming queries as',
          'part of the case, boundary values, producer sweeps, un-binding steps, class hierarchies, placeholders pending, boundary',
          'records. After the last round `harness/run_all_seeds.sh` reports all %d caught with a concrete failing input' % len(metas),
          '(`.work/seeds.txt`); first-time catch rates of the last three rounds were 7/8, 10/11 and 16/20. Patches that stopped applying',
          'after a `fix:` commit were re-created on the new HEAD (`patch.orig.diff` kept); one neutralised seed is in `seeded/_retired`.',
          'Several seeding agents also reported behaviours of the *unmodified* tree that turned out to be genuine defects (repaired:',
          '72252fc, ec1b24a, ef55647, 77b92f4, cc906e2, c627b20, 4fdb3fa, ef0321b; see §12).', '',
          '| seed | property | what it breaks | needs to manifest | result of the check |', '|---|---|---|---|---|']
  for f in sorted(glob.glob(os.path.join(V, 'seeded', '*', 'meta.json'))):
    m = json.load(open(f))
    c = m.get('confirmed_by_integrator', {})
    out.append('| %s | %s | %s | %s | %s |' % (os.path.basename(os.path.dirname(f)), m.get('property', ''),
               str(m.get('what_breaks', '')).replace('|', '\\|').replace('\n', ' ')[:300], str(m.get('needs_to_manifest', '')).replace('|', '\\|').replace('\n', ' ')[:300],
               str(c.get('check_result', '')).replace('|', '\\|').replace('\n', ' ')[:300]))
  # trusted base / coverage summary from the evidence files of the last runs against /repo
  out += ['', '## 14. Trusted base and coverage per property (generated from evidence/Cxx.json of the last run against /repo)', '',
          'Every theorem of every `Properties/Cxx.v` is reported by `Print Assumptions` as closed under the global context unless the',
          'column says otherwise; `coqchk -o` (thorough tier) reports `Axioms: <none>` for all 20. No `Axiom`/`Parameter`/`Admitted`',
          'exists in `coq/` (fail-closed scan on every run). Extraction uses `ExtrOcamlBasic` only (bool option unit list prod sumbool',
          'comparison mapped to OCaml; no `Extract Constant`/`Extract Inductive` of our own); `native_compute` is not used.', '',
          '| property | obligations (theorems + per-run instance obligations) | axioms | regenerated from source each run | cases last quick run (distinct non-trivial) | vm_compute cross-check |',
          '|---|---|---|---|---|---|']
  import importlib, sys
  sys.path.insert(0, V)
  for f in sorted(glob.glob(os.path.join(V, 'evidence', 'C*.json'))):
    ev = json.load(open(f)); c = ev['coverage']; pid = ev['property_id']
    pa = c.get('print_assumptions', {})
    ax = sorted(set(v for v in pa.values() if v != 'closed'))
    try:
      gen = sorted(getattr(importlib.import_module('harness.props.' + pid.lower()), 'GENERATED', {}).keys())
    except Exception:
      gen = []
    x = c.get('vm_compute_crosscheck', {})
    out.append('| %s | %s/%s | %s | %s | %s (%s) | %s cases, %s mismatches |' % (
        pid, c.get('discharged', c.get('proof_obligations_discharged')), c.get('obligations', c.get('proof_obligations_total')),
        'none' if not ax else '; '.join(ax)[:200], ', '.join(gen) or '— (hand-written model + correspondence)',
        c.get('evaluations'), c.get('distinct_nontrivial'), x.get('cases'), x.get('mismatches')))
  out += ['', END, '']
  p = os.path.join(V, 'DESIGN.md')
  s = open(p).read()
  if BEGIN in s:
    s = s[:s.index(BEGIN)] + '\n'.join(out) + s[s.index(END) + len(END):].lstrip('\n')
  else:
    s = s.rstrip('\n') + '\n\n' + '\n'.join(out)
  open(p, 'w').write(s)
  print('DESIGN.md refreshed: %d notes' % len(glob.glob(os.path.join(V, 'design', 'C*.md'))))

if __name__ == '__main__':
  main()

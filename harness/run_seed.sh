#!/bin/bash
# run_seed.sh <seeded/dir> [tier]: applies seeded/<id>/patch.diff to a scratch worktree of /repo HEAD, confirms the demo
# (exit 0 without, exit 1 with the patch), runs the property's check against the patched tree, removes the worktree.
# (While other work is going on in /repo the patch is applied to a scratch worktree rather than to /repo itself;
#  `git -C /repo apply <patch>; ./check Cxx; git -C /repo checkout -- .` is the equivalent in-place procedure.)
set -u
D=$(realpath "$1"); TIER=${2:-quick}
PROP=$(/venv/bin/python -c "import json,sys;print(json.load(open('$D/meta.json'))['property'])" 2>/dev/null)
WT=/tmp/seedrun/$(basename "$D")_$$
mkdir -p /tmp/seedrun
git -C /repo worktree add -q "$WT" HEAD || exit 2
cd "$WT"
PYTHONPATH="$WT" PYTHONHASHSEED=0 timeout 600 /venv/bin/python "$D/demo.py" >/dev/null 2>&1; A=$?
if ! git apply "$D/patch.diff"; then echo "SEED $(basename $D): patch does not apply to /repo HEAD"; git -C /repo worktree remove --force "$WT"; exit 2; fi
PYTHONPATH="$WT" PYTHONHASHSEED=0 timeout 600 /venv/bin/python "$D/demo.py" >/dev/null 2>&1; B=$?
cd /verif
OUT=$(VERIF_REPO="$WT" ./check "$PROP" --tier "$TIER" 2>&1); RC=$?
V=$(echo "$OUT" | grep -c '^VIOLATION')
NF=$(echo "$OUT" | grep '^VIOLATION' | grep -c 'no-failing-input-found')
echo "SEED $(basename $D) property=$PROP demo_without=$A demo_with=$B check_rc=$RC violation_lines=$V no_failing_input_found=$NF"
echo "$OUT" | grep -E '^VIOLATION|ORACLE HIT|CORRESPONDENCE|BROKEN|FAILED' | cut -c1-260 | head -8
git -C /repo worktree remove --force "$WT"

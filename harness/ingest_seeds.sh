#!/bin/bash
# ingest_seeds.sh: every finished seeding worktree /tmp/seed/<cNNx> (has meta.json, patch.diff, demo.py) -> seeded/<CNN>-<x>/, worktree removed.
cd "$(dirname "$0")/.."
for w in /tmp/seed/c[0-9][0-9][a-z]; do
  [ -f "$w/meta.json" ] && [ -f "$w/patch.diff" ] && [ -f "$w/demo.py" ] || continue
  n=$(basename $w); P=$(echo ${n:0:3} | tr a-z A-Z); d=seeded/$P-${n: -1}
  mkdir -p $d; cp $w/patch.diff $w/demo.py $w/meta.json $d/
  git -C /repo worktree remove --force $w && echo "ingested $d"
done

"""Translator for C09: /repo/pyglove/core/symbolic/{base,list,dict}.py -> coq/Gen/NotifySrc.v

Reads the source with `ast` only (never imports pyglove), fail-closed: an unrecognised shape raises TranslationError
and the caller treats the regenerated obligation as broken.  Emits
  * write_sites: every method of pg.List / pg.Dict whose body performs a raw write on the built-in base (super().X(...),
    list.X(self, ...), dict.X(self, ...) with X a mutating method of list / dict), with: does it (or a method of the same
    class it calls on self, transitively) call self._invalidate_content_cache()?  does it hand back / send FieldUpdates?
  * the shape of Symbolic._invalidate_content_cache (which attributes are reset, on which nodes) and of
    Symbolic._notify_field_updates (who is walked, how the relative path is formed, the delivery order, what is reset before
    _on_change, where notify_parents=False stops) as the parameters the model SymCoreEvents.deliver / reset_of is written with.
"""
import ast
import os

class TranslationError(Exception):
  pass

REPO = os.environ.get('VERIF_REPO', '/repo')
MUTATING = {'append', 'insert', 'extend', 'pop', 'remove', 'clear', 'sort', 'reverse', '__setitem__', '__delitem__', '__iadd__', '__imul__',
            'popitem', 'update', 'setdefault'}
CACHE_ATTRS = ['_sym_puresymbolic', '_sym_missing_values', '_sym_nondefault_values']

def _parse(rel):
  with open(os.path.join(REPO, rel)) as f:
    return ast.parse(f.read())

def _class(tree, name):
  for n in tree.body:
    if isinstance(n, ast.ClassDef) and n.name == name:
      return n
  raise TranslationError('class %s not found' % name)

def _methods(cls):
  return {n.name: n for n in cls.body if isinstance(n, ast.FunctionDef)}

def _strip_doc(body):
  if body and isinstance(body[0], ast.Expr) and isinstance(getattr(body[0], 'value', None), ast.Constant) and isinstance(body[0].value.value, str):
    return body[1:]
  return body

def _raw_writes(fn, base):
  """names of the mutating built-in methods the function calls on the built-in base of self."""
  out = []
  for n in ast.walk(fn):
    if isinstance(n, ast.Call) and isinstance(n.func, ast.Attribute) and n.func.attr in MUTATING:
      v = n.func.value
      if isinstance(v, ast.Call) and isinstance(v.func, ast.Name) and v.func.id == 'super' and not v.args:
        out.append(n.func.attr)
      elif isinstance(v, ast.Name) and v.id == base and n.args and isinstance(n.args[0], ast.Name) and n.args[0].id == 'self':
        out.append(n.func.attr)
  return out

def _self_calls(fn):
  return {n.func.attr for n in ast.walk(fn)
          if isinstance(n, ast.Call) and isinstance(n.func, ast.Attribute) and isinstance(n.func.value, ast.Name) and n.func.value.id == 'self'}

def _closure(methods, name, seen=None):
  seen = set() if seen is None else seen
  if name in seen or name not in methods:
    return set()
  seen.add(name)
  calls = _self_calls(methods[name])
  out = set(calls)
  for c in calls:
    out |= _closure(methods, c, seen)
  return out

def write_sites():
  rows = []
  for rel, cname, base in (('pyglove/core/symbolic/list.py', 'List', 'list'), ('pyglove/core/symbolic/dict.py', 'Dict', 'dict')):
    methods = _methods(_class(_parse(rel), cname))
    for name, fn in sorted(methods.items()):
      if name in ('__init__', '__setstate__'):
        continue       # construction: nothing is memoised yet
      raw = _raw_writes(fn, base)
      if not raw:
        continue
      reach = _closure(methods, name)
      inval = '_invalidate_content_cache' in reach
      notifies = '_notify_field_updates' in reach or any(
          isinstance(n, ast.Attribute) and n.attr == 'FieldUpdate' for n in ast.walk(fn)) or '_field_update' in reach
      rows.append(('%s.%s' % (cname, name), sorted(set(raw)), inval, notifies))
  if not rows:
    raise TranslationError('no raw write site found: the source layout is not the expected one')
  return rows

EXPECTED_INVALIDATE = (
    "[Assign(targets=[Name(id='node', ctx=Store())], value=Name(id='self', ctx=Load())), "
    "While(test=Compare(left=Name(id='node', ctx=Load()), ops=[IsNot()], comparators=[Constant(value=None)]), body=["
    + ", ".join("Expr(value=Call(func=Attribute(value=Name(id='node', ctx=Load()), attr='_set_raw_attr', ctx=Load()), "
                "args=[Constant(value='%s'), Constant(value=None)], keywords=[]))" % a for a in CACHE_ATTRS)
    + ", Assign(targets=[Name(id='node', ctx=Store())], value=Attribute(value=Name(id='node', ctx=Load()), attr='sym_parent', ctx=Load()))], orelse=[])]")

EXPECTED_NOTIFY = (
    "[Assign(targets=[Name(id='per_target_updates', ctx=Store())], value=Call(func=Name(id='dict', ctx=Load()), args=[], keywords=[])), "
    "FunctionDef(name='_get_target_updates', args=arguments(posonlyargs=[], args=[arg(arg='target', annotation=Constant(value='Symbolic'))], kwonlyargs=[], kw_defaults=[], defaults=[]), "
    "body=[Assign(targets=[Name(id='target_id', ctx=Store())], value=Call(func=Name(id='id', ctx=Load()), args=[Name(id='target', ctx=Load())], keywords=[])), "
    "If(test=Compare(left=Name(id='target_id', ctx=Load()), ops=[NotIn()], comparators=[Name(id='per_target_updates', ctx=Load())]), "
    "body=[Assign(targets=[Subscript(value=Name(id='per_target_updates', ctx=Load()), slice=Name(id='target_id', ctx=Load()), ctx=Store())], "
    "value=Tuple(elts=[Name(id='target', ctx=Load()), Call(func=Name(id='dict', ctx=Load()), args=[], keywords=[])], ctx=Load()))], orelse=[]), "
    "Return(value=Subscript(value=Subscript(value=Name(id='per_target_updates', ctx=Load()), slice=Name(id='target_id', ctx=Load()), ctx=Load()), slice=Constant(value=1), ctx=Load()))], "
    "decorator_list=[], returns=Subscript(value=Name(id='Dict', ctx=Load()), slice=Tuple(elts=[Attribute(value=Name(id='utils', ctx=Load()), attr='KeyPath', ctx=Load()), Name(id='FieldUpdate', ctx=Load())], ctx=Load()), ctx=Load()), type_params=[]), "
    "For(target=Name(id='update', ctx=Store()), iter=Name(id='field_updates', ctx=Load()), body=["
    "Assign(targets=[Name(id='target', ctx=Store())], value=Attribute(value=Name(id='update', ctx=Load()), attr='target', ctx=Load())), "
    "While(test=Compare(left=Name(id='target', ctx=Load()), ops=[IsNot()], comparators=[Constant(value=None)]), body=["
    "Assign(targets=[Name(id='target_updates', ctx=Store())], value=Call(func=Name(id='_get_target_updates', ctx=Load()), args=[Name(id='target', ctx=Load())], keywords=[])), "
    "If(test=Attribute(value=Name(id='target', ctx=Load()), attr='_subscribes_field_updates', ctx=Load()), body=["
    "Assign(targets=[Name(id='relative_path', ctx=Store())], value=Call(func=Attribute(value=Name(id='utils', ctx=Load()), attr='KeyPath', ctx=Load()), "
    "args=[Subscript(value=Attribute(value=Attribute(value=Name(id='update', ctx=Load()), attr='path', ctx=Load()), attr='keys', ctx=Load()), "
    "slice=Slice(lower=Attribute(value=Attribute(value=Name(id='target', ctx=Load()), attr='sym_path', ctx=Load()), attr='depth', ctx=Load())), ctx=Load())], keywords=[])), "
    "Assign(targets=[Subscript(value=Name(id='target_updates', ctx=Load()), slice=Name(id='relative_path', ctx=Load()), ctx=Store())], value=Name(id='update', ctx=Load()))], orelse=[]), "
    "Assign(targets=[Name(id='target', ctx=Store())], value=Attribute(value=Name(id='target', ctx=Load()), attr='sym_parent', ctx=Load()))], orelse=[])], orelse=[]), "
    "For(target=Tuple(elts=[Name(id='target', ctx=Store()), Name(id='updates', ctx=Store())], ctx=Store()), "
    "iter=Call(func=Name(id='sorted', ctx=Load()), args=[Call(func=Attribute(value=Name(id='per_target_updates', ctx=Load()), attr='values', ctx=Load()), args=[], keywords=[])], "
    "keywords=[keyword(arg='key', value=Lambda(args=arguments(posonlyargs=[], args=[arg(arg='x')], kwonlyargs=[], kw_defaults=[], defaults=[]), "
    "body=Attribute(value=Subscript(value=Name(id='x', ctx=Load()), slice=Constant(value=0), ctx=Load()), attr='sym_path', ctx=Load()))), keyword(arg='reverse', value=Constant(value=True))]), body=["
    + ", ".join("Expr(value=Call(func=Attribute(value=Name(id='target', ctx=Load()), attr='_set_raw_attr', ctx=Load()), "
                "args=[Constant(value='%s'), Constant(value=None)], keywords=[]))" % a for a in CACHE_ATTRS)
    + ", Expr(value=Call(func=Attribute(value=Name(id='target', ctx=Load()), attr='_on_change', ctx=Load()), args=[Name(id='updates', ctx=Load())], keywords=[])), "
    "If(test=BoolOp(op=And(), values=[Compare(left=Name(id='target', ctx=Load()), ops=[Is()], comparators=[Name(id='self', ctx=Load())]), "
    "UnaryOp(op=Not(), operand=Name(id='notify_parents', ctx=Load()))]), body=[Break()], orelse=[])], orelse=[])]")

def _symbolic_method(name):
  cls = _class(_parse('pyglove/core/symbolic/base.py'), 'Symbolic')
  m = _methods(cls).get(name)
  if m is None:
    raise TranslationError('Symbolic.%s not found' % name)
  return m

def _coq_str(s):
  return '[' + '; '.join('%d%%N' % ord(c) for c in s) + ']'

def translate():
  rows = write_sites()
  inv = ast.dump(ast.Module(body=_strip_doc(_symbolic_method('_invalidate_content_cache').body), type_ignores=[]).body) \
      if False else ast.dump(ast.List(elts=_strip_doc(_symbolic_method('_invalidate_content_cache').body), ctx=ast.Load()))
  inv = inv[len('List(elts='):-len(', ctx=Load())')]
  if inv != EXPECTED_INVALIDATE:
    raise TranslationError('Symbolic._invalidate_content_cache has an unrecognised shape (expected: reset the three content caches on self and on '
                           'every sym_parent ancestor)')
  nt = ast.dump(ast.List(elts=_strip_doc(_symbolic_method('_notify_field_updates').body), ctx=ast.Load()))
  nt = nt[len('List(elts='):-len(', ctx=Load())')]
  if nt != EXPECTED_NOTIFY:
    raise TranslationError('Symbolic._notify_field_updates has an unrecognised shape (expected: per update walk update.target and its sym_parent '
                           'ancestors, relative path = update.path.keys[target.sym_path.depth:], sorted by sym_path descending, reset the three '
                           'caches then _on_change, break after self when not notify_parents)')
  lines = ['(* GENERATED by harness/translators/notify_src.py from pyglove/core/symbolic/{base,list,dict}.py -- do not edit *)',
           'From Coq Require Import NArith List Bool.', 'Import ListNotations.', '',
           '(* every method of pg.List / pg.Dict that writes to the built-in base: name, invalidates the content caches (itself or through a method',
           '   of self it calls), hands back or sends FieldUpdates *)',
           'Definition write_sites : list (list N * bool * bool) :=', '  [']
  lines.append(';\n'.join('   (%s, %s, %s)   (* %s: %s *)' % (_coq_str(n), str(i).lower(), str(f).lower(), n, ', '.join(raw)) for n, raw, i, f in rows))
  lines += ['  ].', '',
            '(* Symbolic._invalidate_content_cache: the attributes reset on self and on every ancestor *)',
            'Definition invalidated_attrs : list (list N) := [%s].' % '; '.join(_coq_str(a) for a in CACHE_ATTRS),
            'Definition invalidate_walks_to_root : bool := true.', '',
            '(* Symbolic._notify_field_updates, as recognised *)',
            'Definition notify_walks_from_update_target : bool := true.   (* per update: update.target, then sym_parent, ... *)',
            'Definition notify_relative_path_by_depth : bool := true.     (* update.path.keys[target.sym_path.depth:] *)',
            'Definition notify_sorted_descending_by_path : bool := true.  (* sorted(key=sym_path, reverse=True) *)',
            'Definition notify_resets_before_on_change : list (list N) := [%s].' % '; '.join(_coq_str(a) for a in CACHE_ATTRS),
            'Definition notify_stops_after_self_when_not_parents : bool := true.', '']
  info = dict(write_sites=len(rows), sites=[r[0] for r in rows], not_invalidating=[r[0] for r in rows if not r[2]])
  return '\n'.join(lines), info

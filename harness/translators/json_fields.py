"""Translator for C05: the keyword-argument tables of JSONConvertible classes that serialize through
`to_json_dict(fields, exclude_default=True)` and load through `cls(**kwargs)`:
/repo/pyglove/core/typing/{value_specs,class_schema,key_specs}.py -> coq/Gen/JsonFields.v

For every class with a `to_json` method it extracts (a) the fields handed to `to_json_dict`, each with the
constant whose occurrence makes `exclude_default` drop the field, (b) the parameters of the `__init__` that
`from_json` calls, with their default constants, (c) the `x = x or <const>` normalisations of `__init__`.

Fail-closed: any statement shape that is not recognised raises TranslationError (the regenerated obligation
is then reported broken).  Only reads the source with `ast`; never imports pyglove.
"""
import ast
import os

class TranslationError(Exception):
  pass

FILES = ['pyglove/core/typing/value_specs.py', 'pyglove/core/typing/class_schema.py', 'pyglove/core/typing/key_specs.py']

def repo():
  return os.environ.get('VERIF_REPO', '/repo')

CONSTS = {'None': 'CNone', 'False': 'CFalse', 'True': 'CTrue', 'MISSING_VALUE': 'CMissing', '[]': 'CNil', '{}': 'CEmptyDict'}

def const_of(node, where):
  if isinstance(node, ast.Constant) and node.value is None: return 'CNone'
  if isinstance(node, ast.Constant) and node.value is False: return 'CFalse'
  if isinstance(node, ast.Constant) and node.value is True: return 'CTrue'
  if isinstance(node, ast.Constant) and isinstance(node.value, int): return '(CInt %d)' % node.value
  if isinstance(node, ast.Name) and node.id == 'MISSING_VALUE': return 'CMissing'
  if isinstance(node, ast.Attribute) and node.attr == 'MISSING_VALUE': return 'CMissing'
  if isinstance(node, ast.List) and not node.elts: return 'CNil'
  if isinstance(node, ast.Dict) and not node.keys: return 'CEmptyDict'
  raise TranslationError('%s: not a recognised constant: %s' % (where, ast.unparse(node)))

def _strip_doc(body):
  if body and isinstance(body[0], ast.Expr) and isinstance(getattr(body[0], 'value', None), ast.Constant) \
      and isinstance(body[0].value.value, str):
    return body[1:]
  return body

def _is_self_call(call, name):
  return (isinstance(call, ast.Call) and isinstance(call.func, ast.Attribute) and call.func.attr == name
          and isinstance(call.func.value, ast.Name) and call.func.value.id == 'self')

def _fields_of_dict_call(node, exclude_default, where):
  """dict(k=(value, default), ...) or dict(k=value, ...)"""
  if not (isinstance(node, ast.Call) and isinstance(node.func, ast.Name) and node.func.id == 'dict' and not node.args):
    raise TranslationError('%s: fields is not a dict(...) call: %s' % (where, ast.unparse(node)))
  out = []
  for kw in node.keywords:
    if kw.arg is None:
      raise TranslationError('%s: **kwargs inside fields' % where)
    if exclude_default:
      if not (isinstance(kw.value, ast.Tuple) and len(kw.value.elts) == 2):
        raise TranslationError('%s: field %s is not a (value, default) pair' % (where, kw.arg))
      out.append([kw.arg, const_of(kw.value.elts[1], '%s.%s' % (where, kw.arg)), False])
    else:
      out.append([kw.arg, None, False])
  return out

def _to_json_dict_call(call, local_fields, where):
  if not _is_self_call(call, 'to_json_dict'):
    raise TranslationError('%s: expected self.to_json_dict(...): %s' % (where, ast.unparse(call)))
  if call.args:
    raise TranslationError('%s: positional arguments to to_json_dict' % where)
  kws = {k.arg: k.value for k in call.keywords}
  if None not in kws or set(kws) - {None, 'fields', 'exclude_default'}:
    raise TranslationError('%s: unexpected keywords of to_json_dict: %s' % (where, sorted(k for k in kws if k)))
  excl = False
  if 'exclude_default' in kws:
    if not (isinstance(kws['exclude_default'], ast.Constant) and kws['exclude_default'].value is True):
      raise TranslationError('%s: exclude_default is not the literal True' % where)
    excl = True
  f = kws.get('fields')
  if isinstance(f, ast.Name) and f.id == 'fields' and local_fields is not None:
    if not excl:
      raise TranslationError('%s: local fields without exclude_default' % where)
    return local_fields
  return _fields_of_dict_call(f, excl, where)

def _pure_local(stmt):
  """statements that only compute local names (no effect on what is serialized beyond the values)"""
  if isinstance(stmt, ast.Assign):
    return all(isinstance(t, ast.Name) or (isinstance(t, ast.Tuple) and all(isinstance(e, ast.Name) for e in t.elts)) for t in stmt.targets)
  if isinstance(stmt, ast.Assert):
    return True
  if isinstance(stmt, ast.If):
    return all(_pure_local(s) for s in stmt.body + stmt.orelse)
  return False

def fields_of_to_json(cls, fn, classes):
  """[[key, excl_const|None, conditional]] or ('super', [excluded keys])"""
  where = '%s.to_json' % cls.name
  body = _strip_doc(fn.body)
  # shape S4 (Functor): exclude_keys = kwargs.pop('exclude_keys', set()); exclude_keys.add('k'); return super().to_json(exclude_keys=exclude_keys, **kwargs)
  if len(body) == 3 and isinstance(body[2], ast.Return) and isinstance(body[2].value, ast.Call) \
      and isinstance(body[2].value.func, ast.Attribute) and body[2].value.func.attr == 'to_json' \
      and isinstance(body[2].value.func.value, ast.Call) and isinstance(body[2].value.func.value.func, ast.Name) \
      and body[2].value.func.value.func.id == 'super':
    add = body[1]
    if not (isinstance(add, ast.Expr) and isinstance(add.value, ast.Call) and isinstance(add.value.func, ast.Attribute)
            and add.value.func.attr == 'add' and len(add.value.args) == 1 and isinstance(add.value.args[0], ast.Constant)):
      raise TranslationError('%s: unrecognised exclude_keys statement' % where)
    if ast.unparse(body[0]) != "exclude_keys = kwargs.pop('exclude_keys', set())":
      raise TranslationError('%s: unrecognised first statement: %s' % (where, ast.unparse(body[0])))
    return ('super', [add.value.args[0].value])
  local_fields = None
  i = 0
  # leading pure local computations
  while i < len(body) - 1 and _pure_local(body[i]) and not (
      isinstance(body[i], ast.Assign) and len(body[i].targets) == 1 and isinstance(body[i].targets[0], ast.Name)
      and body[i].targets[0].id in ('fields', 'json_dict')):
    i += 1
  rest = body[i:]
  # shape S1: return self.to_json_dict(...)
  if len(rest) == 1 and isinstance(rest[0], ast.Return):
    return _to_json_dict_call(rest[0].value, None, where)
  # shape S1': json_dict = self.to_json_dict(...); return json_dict
  if len(rest) == 2 and isinstance(rest[0], ast.Assign) and isinstance(rest[0].targets[0], ast.Name) \
      and isinstance(rest[1], ast.Return) and isinstance(rest[1].value, ast.Name) and rest[1].value.id == rest[0].targets[0].id:
    return _to_json_dict_call(rest[0].value, None, where)
  # shape S2 (Dict): fields = dict(...); if cond: fields['k'] = (v, d); return self.to_json_dict(fields=fields, exclude_default=True, **kwargs)
  if len(rest) == 3 and isinstance(rest[0], ast.Assign) and ast.unparse(rest[0].targets[0]) == 'fields' and isinstance(rest[2], ast.Return):
    local_fields = _fields_of_dict_call(rest[0].value, True, where)
    cond = rest[1]
    if not (isinstance(cond, ast.If) and not cond.orelse and len(cond.body) == 1 and isinstance(cond.body[0], ast.Assign)):
      raise TranslationError('%s: unrecognised conditional field' % where)
    tgt = cond.body[0].targets[0]
    val = cond.body[0].value
    if not (isinstance(tgt, ast.Subscript) and ast.unparse(tgt.value) == 'fields' and isinstance(tgt.slice, ast.Constant)
            and isinstance(val, ast.Tuple) and len(val.elts) == 2):
      raise TranslationError('%s: unrecognised conditional field assignment' % where)
    local_fields.append([tgt.slice.value, const_of(val.elts[1], where), True])
    return _to_json_dict_call(rest[2].value, local_fields, where)
  # shape S3 (Enum): json_dict = self.to_json_dict(...); if 'k' not in json_dict: json_dict['k'] = ...; return json_dict
  if len(rest) == 3 and isinstance(rest[0], ast.Assign) and ast.unparse(rest[0].targets[0]) == 'json_dict' \
      and isinstance(rest[2], ast.Return) and ast.unparse(rest[2].value) == 'json_dict':
    fields = _to_json_dict_call(rest[0].value, None, where)
    cond = rest[1]
    ok = (isinstance(cond, ast.If) and not cond.orelse and len(cond.body) == 1 and isinstance(cond.test, ast.Compare)
          and len(cond.test.ops) == 1 and isinstance(cond.test.ops[0], ast.NotIn) and isinstance(cond.test.left, ast.Constant)
          and ast.unparse(cond.test.comparators[0]) == 'json_dict' and isinstance(cond.body[0], ast.Assign)
          and ast.unparse(cond.body[0].targets[0]) == "json_dict[%r]" % cond.test.left.value)
    if not ok:
      raise TranslationError('%s: unrecognised always-emit patch' % where)
    key = cond.test.left.value
    # the value written back must be the serialization of the dropped constant itself
    for f in fields:
      if f[0] == key:
        want = {'CMissing': 'MISSING_VALUE'}.get(f[1])
        if want is None or want not in ast.unparse(cond.body[0].value):
          raise TranslationError('%s: the always-emit patch does not write the dropped constant back' % where)
        f[1] = None
        break
    else:
      raise TranslationError('%s: always-emit patch for an unknown field %r' % (where, key))
    return fields
  raise TranslationError('%s: unrecognised body shape: %s' % (where, [type(s).__name__ for s in body]))

def init_of(cls, classes, seen=()):
  for m in cls.body:
    if isinstance(m, ast.FunctionDef) and m.name == '__init__':
      return cls, m
  for b in cls.bases:
    n = b.id if isinstance(b, ast.Name) else b.attr if isinstance(b, ast.Attribute) else None
    if n in classes and n not in seen:
      r = init_of(classes[n], classes, seen + (cls.name,))
      if r: return r
  return None

def params_of(cls, fn):
  a = fn.args
  where = '%s.__init__' % cls.name
  if a.vararg or a.kwarg or a.posonlyargs:
    raise TranslationError('%s: *args / **kwargs / positional-only parameters' % where)
  pos = a.args[1:]
  defaults = [None] * (len(pos) - len(a.defaults)) + list(a.defaults)
  out = []
  for p, d in list(zip(pos, defaults)) + list(zip(a.kwonlyargs, a.kw_defaults)):
    out.append([p.arg, const_of(d, '%s(%s)' % (where, p.arg)) if d is not None else None])
  norms = []
  for s in ast.walk(fn):
    if isinstance(s, ast.Assign) and len(s.targets) == 1 and isinstance(s.value, ast.BoolOp) and isinstance(s.value.op, ast.Or) \
        and len(s.value.values) == 2 and isinstance(s.value.values[0], ast.Name):
      x = s.value.values[0].id
      t = s.targets[0]
      tn = t.id if isinstance(t, ast.Name) else t.attr.lstrip('_') if isinstance(t, ast.Attribute) else None
      if tn == x and x in [p[0] for p in out]:
        try:
          norms.append([x, const_of(s.value.values[1], where)])
        except TranslationError:
          pass
  # normalisations done by the base __init__ for parameters handed through under the same name
  passed = set()
  for s in ast.walk(fn):
    if isinstance(s, ast.Call) and isinstance(s.func, ast.Attribute) and s.func.attr == '__init__' \
        and isinstance(s.func.value, ast.Call) and isinstance(s.func.value.func, ast.Name) and s.func.value.func.id == 'super':
      for a_ in list(s.args) + [k.value for k in s.keywords]:
        if isinstance(a_, ast.Name):
          passed.add(a_.id)
  return out, norms, passed

def extract():
  classes, order = {}, []
  for f in FILES:
    tree = ast.parse(open(os.path.join(repo(), f)).read())
    for c in tree.body:
      if isinstance(c, ast.ClassDef):
        classes[c.name] = c; order.append(c.name)
  out = []
  tj = {}
  for n in order:
    c = classes[n]
    fn = [m for m in c.body if isinstance(m, ast.FunctionDef) and m.name == 'to_json']
    if fn:
      tj[n] = fields_of_to_json(c, fn[0], classes)
  def resolve(n):
    f = tj[n]
    if isinstance(f, tuple):
      base = [b.id for b in classes[n].bases if isinstance(b, ast.Name) and b.id in tj]
      if len(base) != 1:
        raise TranslationError('%s: super().to_json() with %d serializing bases' % (n, len(base)))
      return [x for x in resolve(base[0]) if x[0] not in f[1]]
    return f
  # concrete classes: those with their own to_json, plus subclasses that inherit one and define __init__ (Int, Float)
  def inherited(n, seen=()):
    if n in tj: return n
    for b in classes[n].bases:
      bn = b.id if isinstance(b, ast.Name) else None
      if bn in classes and bn not in seen:
        r = inherited(bn, seen + (n,))
        if r: return r
    return None
  for n in order:
    src = inherited(n)
    if src is None:
      continue
    if src != n and not any(isinstance(m, ast.FunctionDef) and m.name == '__init__' for m in classes[n].body):
      continue
    r = init_of(classes[n], classes)
    if r is None:
      raise TranslationError('%s: no __init__ found' % n)
    params, norms, passed = params_of(*r)
    if any(p[0] == 'value_type' for p in params):
      continue          # generic bases (ValueSpecBase / PrimitiveType / Number): never constructed from JSON themselves
    # inherit the base __init__'s normalisations for parameters passed to super().__init__ under the same name
    icls = r[0]
    for b in icls.bases:
      bn = b.id if isinstance(b, ast.Name) else None
      if bn in classes:
        rb = init_of(classes[bn], classes)
        if rb:
          _, bnorms, _ = params_of(*rb)
          for x, d in bnorms:
            if x in passed and [x, d] not in norms and x in [p[0] for p in params]:
              norms.append([x, d])
    out.append(dict(name=n, params=params, fields=resolve(src), norms=norms))
  if not out:
    raise TranslationError('no serializing class found')
  return out

def coq_str(s):
  return '[' + '; '.join('%d%%N' % ord(c) for c in s) + ']'

def translate():
  cls = extract()
  lines = ['(* GENERATED by harness/translators/json_fields.py from pyglove/core/typing/{value_specs,class_schema,key_specs}.py.',
           '   Do not edit: rewritten by every run of ./check C05 when the source text changes. *)',
           'From Coq Require Import NArith ZArith List.', 'Import ListNotations.', 'From PG Require Import Model.JsonFields.', '',
           'Definition classes : list cdesc := [']
  items = []
  for c in cls:
    ps = '; '.join('(%s, %s)' % (coq_str(p), 'Some %s' % d if d else 'None') for p, d in c['params'])
    fs = '; '.join('{| fd_key := %s; fd_excl := %s; fd_cond := %s |}' % (coq_str(k), 'Some %s' % d if d else 'None', 'true' if cnd else 'false') for k, d, cnd in c['fields'])
    ns = '; '.join('(%s, %s)' % (coq_str(p), d) for p, d in c['norms'])
    items.append('  (* %s *)\n  {| cd_name := %s;\n     cd_params := [%s];\n     cd_fields := [%s];\n     cd_norms := [%s] |}' % (c['name'], coq_str(c['name']), ps, fs, ns))
  lines.append(';\n'.join(items))
  lines.append('].')
  return '\n'.join(lines) + '\n', dict(classes=[c['name'] for c in cls], detail=cls)

if __name__ == '__main__':
  import json
  text, info = translate()
  for c in info['detail']:
    print(c['name'], 'params=', c['params'], 'fields=', c['fields'], 'norms=', c['norms'])

"""Translator for C18: Functor._parse_call_time_overrides (pyglove/core/symbolic/functor.py) -> coq/Gen/BindingCallTime.v

The function is written in a small subset of Python; every statement and expression of it is converted, node by node,
into the deep-embedded language of coq/Model/BindingLang.v (whose interpreter gives the semantics).  Fail-closed: any
node outside the subset raises TranslationError.  Reads the source with `ast` only; never imports pyglove.

Trusted conventions (named in META['trusted_base'] of harness/props/c18.py):
  * `<value spec>.apply(v, root_path=...)` is the identity on the untyped (Any) arguments the model deals with;
  * the message of `raise TypeError(...)` is not evaluated (only the exception class is observed);
  * `utils.auto_plural` / `utils.comma_delimited_str` are pure message helpers (opaque values, used in messages only).
"""
import ast, os

class TranslationError(Exception):
  pass

REPO = os.environ.get('VERIF_REPO', '/repo')
STRS = {'override_args': 'str_override_args', 'ignore_extra_args': 'str_ignore_extra_args'}
FIELDS = {'args': 'FArgs', 'has_varargs': 'FHasVarargs', 'varargs': 'FVarargs', 'name': 'FName',
          '_override_args': 'FOverrideArgs', '_ignore_extra_args': 'FIgnoreExtraArgs', '__signature__': 'FSignature',
          '_sym_attributes': 'FSymAttributes', '_specified_args': 'FSpecifiedArgs'}
MESSAGE_HELPERS = {'auto_plural', 'comma_delimited_str'}

class T:
  def __init__(self):
    self.vars = {'self': 0, 'args': 1, 'kwargs': 2}
  def var(self, name):
    if name not in self.vars:
      self.vars[name] = len(self.vars)
    return '%d' % self.vars[name]
  def bad(self, node, why=''):
    raise TranslationError('unrecognised %s at line %s: %s %s' % (type(node).__name__, getattr(node, 'lineno', '?'), ast.unparse(node)[:80], why))

  # ---- expressions -------------------------------------------------------------------------------
  def expr(self, e):
    if isinstance(e, ast.Name):
      return '(EVar %s)' % self.var(e.id)
    if isinstance(e, ast.Constant):
      if e.value is None: return '(EConst DNone)'
      if isinstance(e.value, bool): return '(EConst (DBool %s))' % ('true' if e.value else 'false')
      if isinstance(e.value, int): return '(EConst (DInt (%d)%%Z))' % e.value
      if isinstance(e.value, str) and e.value in STRS: return '(EConst (DStr %s))' % STRS[e.value]
      self.bad(e, 'constant')
    if isinstance(e, ast.Attribute):
      if isinstance(e.value, ast.Name) and e.value.id == 'pg_typing' and e.attr == 'MISSING_VALUE':
        return '(EConst DMissing)'
      if e.attr == 'default' and isinstance(e.value, ast.Attribute) and e.value.attr == 'value_spec':
        return '(EAttr %s FDefault)' % self.expr(e.value.value)
      if e.attr in FIELDS:
        return '(EAttr %s %s)' % (self.expr(e.value), FIELDS[e.attr])
      self.bad(e, 'attribute')
    if isinstance(e, ast.Call):
      f = e.func
      if isinstance(f, ast.Name) and not e.keywords and len(e.args) == 1:
        if f.id == 'len': return '(ELen %s)' % self.expr(e.args[0])
        if f.id == 'list': return '(EListCopy %s)' % self.expr(e.args[0])
        if f.id == 'range': return '(ERange %s)' % self.expr(e.args[0])
        if f.id == 'any' and isinstance(e.args[0], ast.GeneratorExp):
          g = e.args[0]
          if len(g.generators) == 1 and not g.generators[0].ifs and isinstance(g.generators[0].target, ast.Name) and not g.generators[0].is_async:
            it = self.expr(g.generators[0].iter)
            return '(EAny %s %s %s)' % (self.var(g.generators[0].target.id), it, self.expr(g.elt))
      if isinstance(f, ast.Attribute):
        if f.attr == 'items' and not e.args and not e.keywords:
          return '(EItems %s)' % self.expr(f.value)
        if f.attr == 'get_value_spec' and len(e.args) == 1 and not e.keywords:
          return '(EGetSpec %s %s)' % (self.expr(f.value), self.expr(e.args[0]))
        if f.attr == 'apply' and len(e.args) == 1 and [k.arg for k in e.keywords] == ['root_path']:
          return self.expr(e.args[0])                     # value-spec application: identity on untyped arguments
        if f.attr == 'is_type_check_enabled' and isinstance(f.value, ast.Name) and f.value.id == 'flags' and not e.args and not e.keywords:
          return 'ETypeCheck'
        if f.attr in MESSAGE_HELPERS and isinstance(f.value, ast.Name) and f.value.id == 'utils':
          return '(EConst DOpaque)'
      self.bad(e, 'call')
    if isinstance(e, ast.UnaryOp) and isinstance(e.op, ast.Not):
      return '(ENot %s)' % self.expr(e.operand)
    if isinstance(e, ast.BoolOp):
      c = 'EAnd' if isinstance(e.op, ast.And) else 'EOr'
      out = self.expr(e.values[-1])
      for v in reversed(e.values[:-1]):
        out = '(%s %s %s)' % (c, self.expr(v), out)
      return out
    if isinstance(e, ast.Compare) and len(e.ops) == 1:
      op = {ast.Gt: 'EGt', ast.Eq: 'EEq', ast.NotEq: 'ENe', ast.In: 'EIn'}.get(type(e.ops[0]))
      if op: return '(%s %s %s)' % (op, self.expr(e.left), self.expr(e.comparators[0]))
      self.bad(e, 'comparison')
    if isinstance(e, ast.Subscript):
      if isinstance(e.slice, ast.Slice):
        if e.slice.step is not None: self.bad(e, 'slice step')
        o = lambda x: 'None' if x is None else '(Some %s)' % self.expr(x)
        return '(ESlice %s %s %s)' % (self.expr(e.value), o(e.slice.lower), o(e.slice.upper))
      return '(EIndex %s %s)' % (self.expr(e.value), self.expr(e.slice))
    if isinstance(e, ast.DictComp):
      g = e.generators
      if (len(g) == 1 and not g[0].is_async and isinstance(g[0].target, ast.Tuple) and len(g[0].target.elts) == 2
          and all(isinstance(x, ast.Name) for x in g[0].target.elts) and isinstance(e.key, ast.Name) and isinstance(e.value, ast.Name)
          and e.key.id == g[0].target.elts[0].id and e.value.id == g[0].target.elts[1].id and len(g[0].ifs) <= 1):
        it = self.expr(g[0].iter)
        k, v = self.var(e.key.id), self.var(e.value.id)
        cond = self.expr(g[0].ifs[0]) if g[0].ifs else '(EConst (DBool true))'
        return '(EDictFilter %s %s %s %s)' % (k, v, it, cond)
      self.bad(e, 'dict comprehension')
    if isinstance(e, ast.ListComp):
      g = e.generators
      if len(g) == 1 and not g[0].is_async and not g[0].ifs and isinstance(g[0].target, ast.Name):
        it = self.expr(g[0].iter)
        return '(EListMap %s %s %s)' % (self.var(g[0].target.id), it, self.expr(e.elt))
      self.bad(e, 'list comprehension')
    if isinstance(e, ast.Tuple) and len(e.elts) == 2:
      return '(EPair %s %s)' % (self.expr(e.elts[0]), self.expr(e.elts[1]))
    if isinstance(e, ast.List) and not e.elts:
      return '(EConst (DList []))'
    self.bad(e)

  # ---- statements --------------------------------------------------------------------------------
  def block(self, body):
    out = []
    for s in body:
      out += self.stmt(s)
    return out
  def blk(self, body):
    return '[' + '; '.join(self.block(body)) + ']'
  def stmt(self, s):
    if isinstance(s, ast.Expr):
      if isinstance(s.value, ast.Constant) and isinstance(s.value.value, str):
        return []                                          # docstring
      c = s.value
      if (isinstance(c, ast.Call) and isinstance(c.func, ast.Attribute) and isinstance(c.func.value, ast.Name)
          and c.func.attr in ('append', 'extend') and len(c.args) == 1 and not c.keywords):
        return ['(%s %s %s)' % ('SAppend' if c.func.attr == 'append' else 'SExtend', self.var(c.func.value.id), self.expr(c.args[0]))]
      self.bad(s, 'expression statement')
    if isinstance(s, ast.Assign) and len(s.targets) == 1:
      t, v = s.targets[0], s.value
      if isinstance(t, ast.Name):
        if (isinstance(v, ast.Call) and isinstance(v.func, ast.Attribute) and v.func.attr == 'pop' and isinstance(v.func.value, ast.Name)
            and len(v.args) == 2 and not v.keywords):
          return ['(SPop %s %s %s %s)' % (self.var(t.id), self.var(v.func.value.id), self.expr(v.args[0]), self.expr(v.args[1]))]
        return ['(SAssign %s %s)' % (self.var(t.id), self.expr(v))]
      if isinstance(t, ast.Subscript) and isinstance(t.value, ast.Name) and not isinstance(t.slice, ast.Slice):
        return ['(SSetItem %s %s %s)' % (self.var(t.value.id), self.expr(t.slice), self.expr(v))]
      self.bad(s, 'assignment target')
    if isinstance(s, ast.Delete) and len(s.targets) == 1 and isinstance(s.targets[0], ast.Subscript) and isinstance(s.targets[0].value, ast.Name):
      return ['(SDelItem %s %s)' % (self.var(s.targets[0].value.id), self.expr(s.targets[0].slice))]
    if isinstance(s, ast.If):
      return ['(SIf %s %s %s)' % (self.expr(s.test), self.blk(s.body), self.blk(s.orelse))]
    if isinstance(s, ast.For) and not s.orelse:
      it = self.expr(s.iter)
      if isinstance(s.target, ast.Name):
        return ['(SFor %s %s %s)' % (self.var(s.target.id), it, self.blk(s.body))]
      if isinstance(s.target, ast.Tuple) and len(s.target.elts) == 2 and all(isinstance(x, ast.Name) for x in s.target.elts):
        return ['(SFor2 %s %s %s %s)' % (self.var(s.target.elts[0].id), self.var(s.target.elts[1].id), it, self.blk(s.body))]
      self.bad(s, 'loop target')
    if isinstance(s, ast.Raise) and s.cause is None and isinstance(s.exc, ast.Call) and isinstance(s.exc.func, ast.Name):
      kind = {'TypeError': 'ETypeError', 'KeyError': 'EKeyError'}.get(s.exc.func.id, 'EOther')
      return ['(SRaise %s)' % kind]
    if isinstance(s, ast.Assert):
      return ['(SAssert %s)' % self.expr(s.test)]
    if isinstance(s, ast.Return) and s.value is not None:
      return ['(SReturn %s)' % self.expr(s.value)]
    self.bad(s)

def find_function(tree, cls, name):
  for n in tree.body:
    if isinstance(n, ast.ClassDef) and n.name == cls:
      for m in n.body:
        if isinstance(m, ast.FunctionDef) and m.name == name:
          return m
  raise TranslationError('%s.%s not found' % (cls, name))

def translate():
  path = os.path.join(REPO, 'pyglove/core/symbolic/functor.py')
  tree = ast.parse(open(path).read())
  fn = find_function(tree, 'Functor', '_parse_call_time_overrides')
  a = fn.args
  if ([x.arg for x in a.args] != ['self'] or a.vararg is None or a.vararg.arg != 'args' or a.kwarg is None or a.kwarg.arg != 'kwargs'
      or a.kwonlyargs or a.posonlyargs or a.defaults or fn.decorator_list):
    raise TranslationError('unexpected parameters of _parse_call_time_overrides')
  t = T()
  stmts = t.block(fn.body)
  # __call__ must hand the result to the wrapped function unchanged (function-based functors)
  call = find_function(tree, 'Functor', '__call__')
  src = ast.unparse(call)
  if 'args, kwargs = self._parse_call_time_overrides(*args, **kwargs)' not in src or 'return_value = self._call(*args, **kwargs)' not in src:
    raise TranslationError('Functor.__call__ no longer passes the parsed arguments straight to _call')
  text = ('(* GENERATED by harness/translators/binding_calltime.py from pyglove/core/symbolic/functor.py\n'
          '   (Functor._parse_call_time_overrides). Do not edit. *)\n'
          'From Coq Require Import NArith ZArith List.\nImport ListNotations.\n'
          'From PG Require Import Model.Binding Model.BindingLang.\nLocal Open Scope N_scope.\n\n'
          '(* variables: %s *)\n'
          'Definition parse_call_time_overrides : list stmt :=\n  [ %s ].\n' % (
              ', '.join('%s=%d' % kv for kv in sorted(t.vars.items(), key=lambda kv: kv[1])), ';\n    '.join(stmts)))
  return text, dict(statements=len(stmts), variables=len(t.vars))

if __name__ == '__main__':
  print(translate()[0])

"""Translator for C13: /repo/pyglove/core/hyper/{numerical,object_template,categorical,custom}.py -> coq/Gen/HyperDefs.v

What is TRANSLATED (statement by statement, fail-closed):
  Float._decode / Float.encode        -> float_decode_gen / float_encode_gen   (guard chain: type test, range tests in source order, result)
  ObjectTemplate.try_encode           -> caught_gen                            (the exception classes it swallows)
  Choices._decode                     -> pick_refuses_gen                      (which comparisons of the DNA value with len(candidates) refuse it,
                                                                               single-choice and multi-choice branch must agree)
  Choices.encode                      -> encode_checks_distinct_gen / _sorted_gen (does encode enforce the constraints decode enforces)
What is PINNED: the functions the model Model/Hyper.v was transcribed from by hand.  Their AST (docstrings and message texts
removed) must be the one the transcription was made from; any other change stops the translation ("translation broken"), and the
check then searches for a failing input.  `python -m harness.translators.hyper_defs --pins` prints the current fingerprints.

The translator only *reads* the source with `ast`; it never imports pyglove.
"""
import ast, copy, hashlib, os, sys

class TranslationError(Exception):
  pass

REPO = os.environ.get('VERIF_REPO', '/repo')
ERR = {'ValueError': 1, 'TypeError': 2, 'KeyError': 3, 'IndexError': 4}
CMP = {'Lt': '<?', 'LtE': '<=?', 'Gt': '>?', 'GtE': '>=?'}

PINNED = {
    # the tree the model was transcribed from: /repo at ef55647 (all six C13 repairs in)
    'CustomHyper.custom_apply': '9cd5df790b3069159793',
    'Float.custom_apply': 'b9d549648c0d242c2e2b',
    'ManyOf.custom_apply': '34158237d83d27ae63c3',
    'OneOf.custom_apply': 'b572b0bbf67d4f01b3b6',
    'Choices._decode': '4e306c8dc5cd0c42a0eb',
    'Choices._on_bound': '071993dbefc2c8835fdd',
    'Choices.dna_spec': 'fcd15349aa3670696025',
    'Choices.encode': '49cb62e0a0a1108f42d0',
    'CustomHyper._decode': '475ee365df402a56c530',
    'CustomHyper.encode': '95971192d4f8143e01ce',
    'Float._decode': '5ea3d2ce65278995cb84',
    'Float.encode': '8a058a3d05a6e3a46617',
    'ObjectTemplate._decode': 'a39444c427ce37c80b11',
    'ObjectTemplate._parse_generators': 'b486fec6d31c0da77af3',
    'ObjectTemplate.dna_spec': 'f086917682616db8313e',
    'ObjectTemplate.encode': '9961b374772d11e0ac82',
    'ObjectTemplate.try_encode': '82fbf793a0622848a49e',
    'OneOf._decode': '85d13f62929400ca2db8',
    'OneOf.encode': '21a387e043c54ff8e50e',
}

def _read(rel):
  return ast.parse(open(os.path.join(REPO, 'pyglove/core/hyper', rel), encoding='utf-8').read())

def _method(tree, cls, name):
  for node in tree.body:
    if isinstance(node, ast.ClassDef) and node.name == cls:
      for f in node.body:
        if isinstance(f, ast.FunctionDef) and f.name == name:
          return f
  raise TranslationError('%s.%s not found' % (cls, name))

def _body(fn):
  b = fn.body
  if b and isinstance(b[0], ast.Expr) and isinstance(b[0].value, ast.Constant) and isinstance(b[0].value.value, str):
    b = b[1:]
  return b

class _Strip(ast.NodeTransformer):
  """Message texts do not matter: every str constant / f-string becomes the same constant."""
  def visit_JoinedStr(self, node):
    return ast.copy_location(ast.Constant(value='...'), node)
  def visit_Constant(self, node):
    return ast.copy_location(ast.Constant(value='...'), node) if isinstance(node.value, str) else node

def fingerprint(fn):
  f = copy.deepcopy(fn)
  f.body = _body(f)
  f = _Strip().visit(f)
  return hashlib.sha256(ast.dump(f, annotate_fields=True, include_attributes=False).encode()).hexdigest()[:20]

def _d(node):
  return ast.dump(node)

def _raises(stmts):
  """[Raise(ExcClass(...))] -> error code."""
  if len(stmts) != 1 or not isinstance(stmts[0], ast.Raise) or not isinstance(stmts[0].exc, ast.Call) or not isinstance(stmts[0].exc.func, ast.Name):
    raise TranslationError('guard body is not a single `raise Exc(...)`: %s' % _d(stmts[0])[:120])
  name = stmts[0].exc.func.id
  if name not in ERR:
    raise TranslationError('unknown exception class %s' % name)
  return ERR[name]

def _guard_chain(fn, subject_dump, bound_names):
  """Float._decode / Float.encode: [alias assignment]? ; if not isinstance(S, float): raise ; (if S op self.bound: raise)* ; return.
  Returns (error of the type test, [(op, 'lo'|'hi', error)], return expression)."""
  body = _body(fn)
  i = 0
  if body and isinstance(body[0], ast.Assign):
    a = body[0]
    if _d(a) != _d(ast.parse('dna = self._dna').body[0]):
      raise TranslationError('unrecognised assignment in %s: %s' % (fn.name, _d(a)[:120]))
    i = 1
  g = body[i]
  iso = ast.parse('not isinstance(%s, float)' % subject_dump, mode='eval').body
  if not isinstance(g, ast.If) or g.orelse or _d(g.test) != _d(iso):
    raise TranslationError('%s: the first guard is not `if not isinstance(%s, float): raise`' % (fn.name, subject_dump))
  e0 = _raises(g.body)
  chain = []
  for g in body[i + 1:-1]:
    if not isinstance(g, ast.If) or g.orelse or not isinstance(g.test, ast.Compare) or len(g.test.ops) != 1:
      raise TranslationError('%s: unrecognised statement %s' % (fn.name, _d(g)[:160]))
    if _d(g.test.left) != _d(ast.parse(subject_dump, mode='eval').body):
      raise TranslationError('%s: comparison of something else than %s' % (fn.name, subject_dump))
    op = type(g.test.ops[0]).__name__
    rhs = g.test.comparators[0]
    if op not in CMP or not (isinstance(rhs, ast.Attribute) and isinstance(rhs.value, ast.Name) and rhs.value.id == 'self' and rhs.attr in bound_names):
      raise TranslationError('%s: unrecognised range test %s' % (fn.name, _d(g.test)[:160]))
    chain.append((CMP[op], bound_names[rhs.attr], _raises(g.body)))
  r = body[-1]
  if not isinstance(r, ast.Return):
    raise TranslationError('%s does not end with return' % fn.name)
  return e0, chain, r.value

def _coq_chain(chain, ok):
  out = ok
  for op, b, e in reversed(chain):
    out = 'if (x %s %s)%%Z then Err %d else %s' % (op, b, e, out)
  return out

def translate():
  num, ot, cat, cus = _read('numerical.py'), _read('object_template.py'), _read('categorical.py'), _read('custom.py')
  fns = {
      'Float._decode': _method(num, 'Float', '_decode'), 'Float.encode': _method(num, 'Float', 'encode'),
      'ObjectTemplate._parse_generators': _method(ot, 'ObjectTemplate', '_parse_generators'),
      'ObjectTemplate.dna_spec': _method(ot, 'ObjectTemplate', 'dna_spec'),
      'ObjectTemplate._decode': _method(ot, 'ObjectTemplate', '_decode'), 'ObjectTemplate.encode': _method(ot, 'ObjectTemplate', 'encode'),
      'ObjectTemplate.try_encode': _method(ot, 'ObjectTemplate', 'try_encode'),
      'Choices._on_bound': _method(cat, 'Choices', '_on_bound'), 'Choices.dna_spec': _method(cat, 'Choices', 'dna_spec'),
      'Choices._decode': _method(cat, 'Choices', '_decode'), 'Choices.encode': _method(cat, 'Choices', 'encode'),
      'OneOf._decode': _method(cat, 'OneOf', '_decode'), 'OneOf.encode': _method(cat, 'OneOf', 'encode'),
      'CustomHyper._decode': _method(cus, 'CustomHyper', '_decode'), 'CustomHyper.encode': _method(cus, 'CustomHyper', 'encode'),
      # the binding-time validation [bound] of Model/HyperTyping.v was transcribed from
      'Float.custom_apply': _method(num, 'Float', 'custom_apply'), 'OneOf.custom_apply': _method(cat, 'OneOf', 'custom_apply'),
      'ManyOf.custom_apply': _method(cat, 'ManyOf', 'custom_apply'), 'CustomHyper.custom_apply': _method(cus, 'CustomHyper', 'custom_apply'),
  }
  prints = {k: fingerprint(f) for k, f in fns.items()}
  bounds = {'min_value': 'lo', 'max_value': 'hi'}
  # ---- Float
  e0, chain, ret = _guard_chain(fns['Float._decode'], 'dna.value', bounds)
  if _d(ret) != _d(ast.parse('dna.value', mode='eval').body):
    raise TranslationError('Float._decode returns something else than dna.value')
  fdec = ('Definition float_decode_gen (lo hi : flt) (v : dval) : result flt :=\n  match v with\n  | VFlt x => %s\n  | _ => Err %d\n  end.' % (_coq_chain(chain, 'Ok x'), e0))
  e1, chain1, ret1 = _guard_chain(fns['Float.encode'], 'value', bounds)
  if _d(ret1) != _d(ast.parse('geno.DNA(value)', mode='eval').body):
    raise TranslationError('Float.encode returns something else than geno.DNA(value)')
  fenc = ('Definition float_encode_gen (lo hi : flt) (l : leaf) : result flt :=\n  match l with\n  | LfFlt x => %s\n  | _ => Err %d\n  end.' % (_coq_chain(chain1, 'Ok x'), e1))
  # ---- try_encode
  tb = _body(fns['ObjectTemplate.try_encode'])
  if len(tb) != 1 or not isinstance(tb[0], ast.Try) or tb[0].orelse or tb[0].finalbody:
    raise TranslationError('try_encode is not a single try statement')
  if [_d(x) for x in tb[0].body] != [_d(x) for x in ast.parse('dna = self.encode(value)\nreturn (True, dna)').body]:
    raise TranslationError('try_encode: unrecognised try body')
  caught = []
  for h in tb[0].handlers:
    if not isinstance(h.type, ast.Name) or h.type.id not in ERR or [_d(x) for x in h.body] != [_d(ast.parse('return (False, None)').body[0])]:
      raise TranslationError('try_encode: unrecognised handler %s' % _d(h)[:160])
    caught.append(ERR[h.type.id])
  # ---- Choices._decode: the comparisons of a DNA value with len(self.candidates) that refuse it
  ln = _d(ast.parse('len(self.candidates)', mode='eval').body)
  groups = {}
  int_tests = set()
  for node in ast.walk(fns['Choices._decode']):
    if isinstance(node, ast.If) and isinstance(node.test, ast.Compare) and len(node.test.ops) == 1 and _d(node.test.comparators[0]) == ln:
      left = node.test.left
      if not (isinstance(left, ast.Attribute) and left.attr == 'value' and isinstance(left.value, ast.Name) and left.value.id in ('dna', 'sub_dna')):
        raise TranslationError('Choices._decode: comparison of %s with len(self.candidates)' % _d(left)[:80])
      op = type(node.test.ops[0]).__name__
      if op not in CMP or _raises(node.body) != 1:
        raise TranslationError('Choices._decode: unrecognised index test')
      groups.setdefault(left.value.id, []).append(CMP[op])
    if isinstance(node, ast.If) and isinstance(node.test, ast.UnaryOp) and isinstance(node.test.op, ast.Not):
      for who in ('dna', 'sub_dna'):
        if _d(node.test.operand) == _d(ast.parse('isinstance(%s.value, int)' % who, mode='eval').body) and _raises(node.body) == 1:
          int_tests.add(who)
    if isinstance(node, ast.Compare) and any(isinstance(c, ast.Constant) and isinstance(c.value, int) and not isinstance(c.value, bool) for c in node.comparators) \
        and isinstance(node.left, ast.Attribute) and node.left.attr == 'value':
      raise TranslationError('Choices._decode compares a DNA value with a constant: not transcribed in the model')
  if int_tests != {'dna', 'sub_dna'} or set(groups) != {'dna', 'sub_dna'} or groups['dna'] != groups['sub_dna']:
    raise TranslationError('Choices._decode: the single-choice and the multi-choice branch test the index differently: %r %r' % (groups, int_tests))
  pick = ' || '.join('(z %s n)%%Z' % op for op in groups['dna'])
  # ---- Choices.encode: constraint checks after the matching loop
  cd = _d(ast.parse('self.choices_distinct and len(set(choice_ids)) != len(choice_ids)', mode='eval').body)
  cs = _d(ast.parse('self.choices_sorted and sorted(choice_ids) != choice_ids', mode='eval').body)
  has_d = has_s = False
  for node in _body(fns['Choices.encode']):
    if isinstance(node, ast.If) and _d(node.test) == cd and _raises(node.body) == 1: has_d = True
    if isinstance(node, ast.If) and _d(node.test) == cs and _raises(node.body) == 1: has_s = True
  # ---- pinned transcription sources
  bad = [k for k, v in prints.items() if PINNED.get(k) != v]
  if bad:
    raise TranslationError('the model was transcribed from another version of: %s (current fingerprints: %s)' % (', '.join(sorted(bad)), {k: prints[k] for k in bad}))
  text = '\n'.join([
      '(* HyperDefs.v — GENERATED by harness/translators/hyper_defs.py from pyglove/core/hyper/*.py.  Do not edit. *)',
      'From Coq Require Import ZArith List Bool.', 'Import ListNotations.',
      'From PG Require Import Model.Geno Model.Hyper.', '',
      '(* Float._decode *)', fdec, '', '(* Float.encode (the DNA value it returns) *)', fenc, '',
      '(* ObjectTemplate.try_encode: the exception classes it swallows *)',
      'Definition caught_gen : list nat := [%s].' % '; '.join(str(c) for c in caught), '',
      '(* Choices._decode: a DNA value z is refused against n candidates (both branches) *)',
      'Definition pick_refuses_gen (z n : Z) : bool := %s.' % pick, '',
      '(* Choices.encode enforces the distinct / sorted constraint *)',
      'Definition encode_checks_distinct_gen : bool := %s.' % ('true' if has_d else 'false'),
      'Definition encode_checks_sorted_gen : bool := %s.' % ('true' if has_s else 'false'), '',
      '(* fingerprints of the functions Model/Hyper.v was transcribed from *)'] +
      ['(* %s %s *)' % (k, v) for k, v in sorted(prints.items())]) + '\n'
  return text, dict(fingerprints=prints)

if __name__ == '__main__':
  if '--pins' in sys.argv:
    saved = dict(PINNED); PINNED.clear()
    try:
      translate()
    except TranslationError as e:
      print(e)
  else:
    print(translate()[0])

"""Translator for C19: /repo/pyglove/core/coding/{parsing,permissions,execution}.py -> coq/Gen/PermTable.v

Fail-closed: any statement shape that is not recognised raises TranslationError, the caller
then treats the regenerated obligation as broken.  The translator only *reads* the source with
`ast`; it never imports pyglove.
"""
import ast
import os

class TranslationError(Exception):
  pass

REPO = os.environ.get('VERIF_REPO', '/repo')

# Node classes that are abstract bases / deprecated aliases in the running Python's `ast`.
def node_kinds():
  kinds = []
  for name, c in sorted(vars(ast).items()):
    if isinstance(c, type) and issubclass(c, ast.AST) and c is not ast.AST:
      if name.startswith('_'):
        continue
      kinds.append(name)
  return kinds

# names the hand-written specification table (coq/Model/Perm.v: required) refers to; when the
# running Python lacks one it gets an index >= nkinds that no real node has.
SPEC_KIND_NAMES = [
    'Assign', 'AugAssign', 'AnnAssign', 'NamedExpr', 'If', 'Match', 'IfExp', 'For', 'While', 'AsyncFor',
    'Call', 'Try', 'TryStar', 'Raise', 'Assert', 'ClassDef', 'FunctionDef', 'AsyncFunctionDef', 'Lambda',
    'Import', 'ImportFrom', 'Return', 'Yield', 'YieldFrom', 'AsyncWith', 'With', 'ListComp', 'SetComp',
    'DictComp', 'GeneratorExp', 'comprehension', 'Delete',
]
SPEC_FLAG_NAMES = ['ASSIGN', 'CONDITION', 'LOOP', 'CALL', 'EXCEPTION', 'CLASS_DEFINITION',
                   'FUNCTION_DEFINITION', 'IMPORT']

EXPECTED_VERIFY_TAIL = (
    "If(test=BoolOp(op=And(), values=[Call(func=Name(id='isinstance', ctx=Load()), "
    "args=[Name(id='node', ctx=Load()), Name(id='node_type', ctx=Load())], keywords=[]), "
    "UnaryOp(op=Not(), operand=BinOp(left=Attribute(value=Name(id='self', ctx=Load()), attr='permission', ctx=Load()), "
    "op=BitAnd(), right=Name(id='flag', ctx=Load())))])")
EXPECTED_VERIFY_HEAD = (
    "If(test=Call(func=Name(id='isinstance', ctx=Load()), args=[Name(id='node_type', ctx=Load()), "
    "Tuple(elts=[Name(id='tuple', ctx=Load()), Name(id='list', ctx=Load())], ctx=Load())], keywords=[]), "
    "body=[Assign(targets=[Name(id='node_type', ctx=Store())], value=Call(func=Name(id='tuple', ctx=Load()), "
    "args=[GeneratorExp(elt=Name(id='t', ctx=Load()), generators=[comprehension(target=Name(id='t', ctx=Store()), "
    "iter=Name(id='node_type', ctx=Load()), ifs=[Compare(left=Name(id='t', ctx=Load()), ops=[IsNot()], "
    "comparators=[Constant(value=None)])], is_async=0)])], keywords=[]))], orelse=[])")
EXPECTED_PARSE_BODY = (
    "[Try(body=[Assign(targets=[Name(id='parsed_code', ctx=Store())], value=Call(func=Attribute(value=Name(id='ast', ctx=Load()), "
    "attr='parse', ctx=Load()), args=[Name(id='code', ctx=Load())], keywords=[keyword(arg='mode', value=Constant(value='exec'))])), "
    "If(test=Compare(left=Name(id='permission', ctx=Load()), ops=[IsNot()], comparators=[Constant(value=None)]), "
    "body=[Expr(value=Call(func=Attribute(value=Call(func=Name(id='_CodeValidator', ctx=Load()), args=[Name(id='code', ctx=Load()), "
    "Name(id='permission', ctx=Load())], keywords=[]), attr='visit', ctx=Load()), args=[Name(id='parsed_code', ctx=Load())], keywords=[]))], orelse=[])], "
    "handlers=[ExceptHandler(type=Name(id='SyntaxError', ctx=Load()), name='e', body=[Raise(exc=Call(func=Attribute(value=Name(id='errors', ctx=Load()), "
    "attr='CodeError', ctx=Load()), args=[Name(id='code', ctx=Load()), Name(id='e', ctx=Load())], keywords=[]), cause=Name(id='e', ctx=Load()))])], "
    "orelse=[], finalbody=[]), Return(value=Name(id='parsed_code', ctx=Load()))]")


def _strip_doc(body):
  if body and isinstance(body[0], ast.Expr) and isinstance(getattr(body[0], 'value', None), ast.Constant) \
      and isinstance(body[0].value.value, str):
    return body[1:]
  return body


def _resolve_types(node):
  """Statically evaluates the node-type argument of a verify() call to a tuple of ast classes."""
  if isinstance(node, ast.Attribute) and isinstance(node.value, ast.Name) and node.value.id == 'ast':
    if not hasattr(ast, node.attr):
      raise TranslationError('ast has no class %s' % node.attr)
    return (getattr(ast, node.attr),)
  if isinstance(node, ast.Call) and isinstance(node.func, ast.Name) and node.func.id == 'getattr' \
      and len(node.args) == 3 and isinstance(node.args[0], ast.Name) and node.args[0].id == 'ast' \
      and isinstance(node.args[1], ast.Constant) and isinstance(node.args[2], ast.Constant) \
      and node.args[2].value is None and not node.keywords:
    c = getattr(ast, node.args[1].value, None)
    return (c,) if c is not None else ()
  if isinstance(node, (ast.Tuple, ast.List)):
    out = ()
    for e in node.elts:
      out += _resolve_types(e)
    return out
  raise TranslationError('unrecognised node-type expression: %s' % ast.dump(node))


def read_flags(path):
  tree = ast.parse(open(path).read())
  for n in tree.body:
    if isinstance(n, ast.ClassDef) and n.name == 'CodePermission':
      flags = []
      for s in n.body:
        if isinstance(s, ast.Assign) and len(s.targets) == 1 and isinstance(s.targets[0], ast.Name):
          v = s.value
          if not (isinstance(v, ast.Call) and ast.dump(v.func) == "Attribute(value=Name(id='enum', ctx=Load()), attr='auto', ctx=Load())"):
            raise TranslationError('CodePermission member %s is not enum.auto()' % s.targets[0].id)
          flags.append(s.targets[0].id)
      bases = [ast.dump(b) for b in n.bases]
      if bases != ["Attribute(value=Name(id='enum', ctx=Load()), attr='Flag', ctx=Load())"]:
        raise TranslationError('CodePermission is not an enum.Flag')
      return flags
  raise TranslationError('class CodePermission not found')


def read_validator(path):
  """Returns [(flag_name, (classes...))] in source order."""
  tree = ast.parse(open(path).read())
  cls = None
  parse_fn = None
  for n in tree.body:
    if isinstance(n, ast.ClassDef) and n.name == '_CodeValidator':
      cls = n
    if isinstance(n, ast.FunctionDef) and n.name == 'parse':
      parse_fn = n
  if cls is None or parse_fn is None:
    raise TranslationError('_CodeValidator or parse() not found')
  if [ast.dump(b) for b in cls.bases] != ["Attribute(value=Name(id='ast', ctx=Load()), attr='NodeVisitor', ctx=Load())"]:
    raise TranslationError('_CodeValidator is not an ast.NodeVisitor')
  methods = {}
  for s in _strip_doc(cls.body):
    if not isinstance(s, ast.FunctionDef):
      raise TranslationError('unexpected statement in _CodeValidator: %s' % type(s).__name__)
    methods[s.name] = s
  for name in methods:
    if name.startswith('visit'):
      raise TranslationError('_CodeValidator overrides %s: traversal is no longer the generic one' % name)
  if set(methods) != {'__init__', 'verify', '_code_line', 'generic_visit'}:
    raise TranslationError('unexpected method set %s' % sorted(methods))
  # verify: [optional tuple normalisation] ; if isinstance(node,node_type) and not (self.permission & flag): ... raise
  vb = _strip_doc(methods['verify'].body)
  if [a.arg for a in methods['verify'].args.args] != ['self', 'node', 'flag', 'node_type', 'error_message']:
    raise TranslationError('verify() signature changed')
  if len(vb) != 2:
    raise TranslationError('verify() body has %d statements, expected 2' % len(vb))
  if ast.dump(vb[0]) != EXPECTED_VERIFY_HEAD:
    raise TranslationError('verify(): tuple normalisation changed')
  if not isinstance(vb[1], ast.If) or not ast.dump(vb[1]).startswith(EXPECTED_VERIFY_TAIL) or vb[1].orelse:
    raise TranslationError('verify(): guard changed')
  if not isinstance(vb[1].body[-1], ast.Raise):
    raise TranslationError('verify(): guarded block does not end in raise')
  # __init__ must store permission
  ib = [ast.dump(s) for s in _strip_doc(methods['__init__'].body)]
  if "Assign(targets=[Attribute(value=Name(id='self', ctx=Load()), attr='permission', ctx=Store())], value=Name(id='permission', ctx=Load()))" not in ib:
    raise TranslationError('__init__ no longer stores permission')
  # generic_visit
  gv = _strip_doc(methods['generic_visit'].body)
  if [a.arg for a in methods['generic_visit'].args.args] != ['self', 'node']:
    raise TranslationError('generic_visit signature changed')
  rules = []
  if not gv:
    raise TranslationError('empty generic_visit')
  last = gv[-1]
  if ast.dump(last) != ("Expr(value=Call(func=Attribute(value=Call(func=Name(id='super', ctx=Load()), args=[], keywords=[]), "
                        "attr='generic_visit', ctx=Load()), args=[Name(id='node', ctx=Load())], keywords=[]))"):
    raise TranslationError('generic_visit does not end with super().generic_visit(node)')
  for s in gv[:-1]:
    ok = (isinstance(s, ast.Expr) and isinstance(s.value, ast.Call)
          and ast.dump(s.value.func) == "Attribute(value=Name(id='self', ctx=Load()), attr='verify', ctx=Load())"
          and len(s.value.args) == 4 and not s.value.keywords
          and ast.dump(s.value.args[0]) == "Name(id='node', ctx=Load())")
    if not ok:
      raise TranslationError('generic_visit: unrecognised statement at line %d' % s.lineno)
    f = s.value.args[1]
    if not (isinstance(f, ast.Attribute) and ast.dump(f.value) ==
            "Attribute(value=Name(id='permissions', ctx=Load()), attr='CodePermission', ctx=Load())"):
      raise TranslationError('generic_visit: flag expression not permissions.CodePermission.X at line %d' % s.lineno)
    rules.append((f.attr, _resolve_types(s.value.args[2])))
  if ast.dump(ast.Module(body=_strip_doc(parse_fn.body), type_ignores=[]))[len('Module(body='):-len(', type_ignores=[])')] != EXPECTED_PARSE_BODY:
    raise TranslationError('parse(): body changed (validation no longer recognisably precedes return)')
  return rules


def read_evaluate(path):
  """Checks that evaluate() validates before compiling/executing anything; returns the permission rule."""
  tree = ast.parse(open(path).read())
  fn = None
  for n in tree.body:
    if isinstance(n, ast.FunctionDef) and n.name == 'evaluate':
      fn = n
  if fn is None:
    raise TranslationError('evaluate() not found')
  body = _strip_doc(fn.body)
  parse_idx = None
  first_exec = None
  perm_stmts = []
  for i, s in enumerate(body):
    d = ast.dump(s)
    if d == ("Assign(targets=[Name(id='code_block', ctx=Store())], value=Call(func=Attribute(value=Name(id='parsing', ctx=Load()), "
             "attr='parse', ctx=Load()), args=[Name(id='code', ctx=Load()), Name(id='permission', ctx=Load())], keywords=[]))"):
      if parse_idx is None:
        parse_idx = i
    touches_perm = any(isinstance(c, ast.Name) and c.id in ('permission', 'scope_permission') and isinstance(c.ctx, ast.Store)
                       for c in ast.walk(s))
    if touches_perm:
      if parse_idx is not None:
        raise TranslationError('evaluate(): permission reassigned after parse')
      perm_stmts.append(d)
    for c in ast.walk(s):
      if isinstance(c, ast.Call) and isinstance(c.func, ast.Name) and c.func.id in ('exec', 'eval', 'compile'):
        if first_exec is None:
          first_exec = i
  if parse_idx is None:
    raise TranslationError('evaluate(): `code_block = parsing.parse(code, permission)` not found at top level')
  if first_exec is not None and first_exec <= parse_idx:
    raise TranslationError('evaluate(): exec/eval/compile reachable before parse()')
  GET = "Call(func=Attribute(value=Name(id='permissions', ctx=Load()), attr='get_permission', ctx=Load()), args=[], keywords=[])"
  RULE_OR = ["Assign(targets=[Name(id='permission', ctx=Store())], value=BoolOp(op=Or(), values=[Name(id='permission', ctx=Load()), %s]))" % GET]
  RULE_MEET = [
      "Assign(targets=[Name(id='scope_permission', ctx=Store())], value=%s)" % GET,
      "If(test=Compare(left=Name(id='permission', ctx=Load()), ops=[Is()], comparators=[Constant(value=None)]), "
      "body=[Assign(targets=[Name(id='permission', ctx=Store())], value=Name(id='scope_permission', ctx=Load()))], "
      "orelse=[If(test=Compare(left=Name(id='scope_permission', ctx=Load()), ops=[IsNot()], comparators=[Constant(value=None)]), "
      "body=[Assign(targets=[Name(id='permission', ctx=Store())], value=BinOp(left=Name(id='permission', ctx=Load()), op=BitAnd(), "
      "right=Name(id='scope_permission', ctx=Load())))], orelse=[])])"]
  if perm_stmts == RULE_OR:
    return 'arg_or_scope'
  if perm_stmts == RULE_MEET:
    return 'meet'
  if perm_stmts == []:
    return 'arg_only'
  raise TranslationError('evaluate(): unrecognised computation of the effective permission: %s' % perm_stmts)


def translate(repo=None):
  repo = repo or REPO
  base = os.path.join(repo, 'pyglove/core/coding')
  flags = read_flags(os.path.join(base, 'permissions.py'))
  rules = read_validator(os.path.join(base, 'parsing.py'))
  perm_rule = read_evaluate(os.path.join(base, 'execution.py'))
  kinds = node_kinds()
  kidx = {k: i for i, k in enumerate(kinds)}
  fidx = {f: i for i, f in enumerate(flags)}
  table = {}
  for fname, classes in rules:
    if fname not in fidx:
      raise TranslationError('unknown flag %s' % fname)
    for k in kinds:
      c = getattr(ast, k)
      if classes and issubclass(c, classes):
        table.setdefault(k, [])
        if fidx[fname] not in table[k]:
          table[k].append(fidx[fname])
  out = []
  out.append('(* GENERATED by harness/translators/perm_table.py from pyglove/core/coding/{parsing,permissions,execution}.py.')
  out.append('   Do not edit: rewritten by every run of ./check C19 when the source text changes. *)')
  out.append('From Coq Require Import NArith List.')
  out.append('Import ListNotations.')
  out.append('Local Open Scope N_scope.')
  out.append('')
  out.append('Definition nkinds : N := %d.' % len(kinds))
  for k in kinds:
    out.append('Definition k_%s : N := %d.' % (k, kidx[k]))
  extra = len(kinds)
  for k in SPEC_KIND_NAMES:
    if k not in kidx:
      out.append('Definition k_%s : N := %d. (* absent from this Python *)' % (k, extra))
      extra += 1
  out.append('')
  out.append('Definition nflags : N := %d.' % len(flags))
  for f in flags:
    out.append('Definition f_%s : N := %d.' % (f, fidx[f]))
  extra = len(flags)
  for f in SPEC_FLAG_NAMES:
    if f not in fidx:
      out.append('Definition f_%s : N := %d. (* absent from the source *)' % (f, extra))
      extra += 1
  out.append('')
  out.append('(* flags whose absence makes the validator reject a node of kind k (isinstance against the verify() tuples) *)')
  out.append('Definition tbl (k : N) : list N :=')
  out.append('  match k with')
  for k in kinds:
    if k in table:
      out.append('  | %d => [%s] (* %s *)' % (kidx[k], '; '.join(str(x) for x in table[k]), k))
  out.append('  | _ => []')
  out.append('  end.')
  out.append('')
  out.append('(* evaluate(): how the effective permission is computed from the argument and the enclosing scope (rule: %s) *)' % perm_rule)
  out.append('Definition eval_perm (arg scope : option N) : option N :=')
  if perm_rule == 'arg_or_scope':    # permission = permission or get_permission()   (a falsy argument falls back)
    out.append('  match arg with Some a => if N.eqb a 0 then scope else Some a | None => scope end.')
  elif perm_rule == 'meet':          # None -> scope; both present -> a & s
    out.append('  match arg, scope with None, s => s | Some a, None => Some a | Some a, Some s => Some (N.land a s) end.')
  else:                              # the scope is ignored
    out.append('  arg.')
  out.append('')
  return '\n'.join(out), dict(kinds=kinds, flags=flags, table=table, perm_rule=perm_rule)


if __name__ == '__main__':
  text, info = translate()
  print(text)

"""Translator for C19 (second part): the last-statement handling of evaluate() in
/repo/pyglove/core/coding/execution.py -> coq/Gen/EvalShape.v

It reads the `with contextlib.redirect_stdout(stdout):` block of evaluate() statement by statement and emits the
*plan* evaluate() follows (which statement kinds are popped and evaluated as the result, and in which order the body is
executed, the last value evaluated, names bound and a complex assignment performed).  Every statement must match one of the
recognised shapes exactly (ast.dump); anything else raises TranslationError (fail closed).
"""
import ast, os

class TranslationError(Exception):
  pass

REPO = os.environ.get('VERIF_REPO', '/repo')

def _d(src):
  return ast.dump(ast.parse(src).body[0])

def _strip_doc(body):
  if body and isinstance(body[0], ast.Expr) and isinstance(getattr(body[0], 'value', None), ast.Constant) and isinstance(body[0].value.value, str):
    return body[1:]
  return body

EXEC_BODY = _d("exec(compile(code_block, '', mode='exec'), global_vars)")
EVAL_LAST = _d("result = eval(compile(last_expr, '', mode='eval'), global_vars)")
RAISE_CODE_ERROR = _d("raise errors.CodeError(code, e) from e")
POP_LAST = _d("last_expr = code_block.body.pop()")
RESULT_VARS = _d("result_vars = [RESULT_KEY]")
COMPLEX_NONE = _d("complex_assign = None")
TO_EXPRESSION = _d("last_expr = ast.Expression(last_expr.value)")
BIND_NAMES = _d("for result_var in result_vars:\n  global_vars[result_var] = result")
BIND_LAST_GLOBAL = _d("global_vars[RESULT_KEY] = list(global_vars.values())[-1]")
EXEC_COMPLEX = _d("exec(compile(ast.fix_missing_locations(complex_assign), '', mode='exec'), global_vars)")
APPEND_NAME = _d("result_vars.append(name_node.id)")

def _try_of(stmt, inner_dumps):
  """stmt must be `try: <inner…> except Exception as e: raise errors.CodeError(code, e) from e`."""
  if not isinstance(stmt, ast.Try) or stmt.orelse or stmt.finalbody or len(stmt.handlers) != 1:
    return False
  h = stmt.handlers[0]
  if ast.dump(h.type) != "Name(id='Exception', ctx=Load())" or h.name != 'e' or [ast.dump(s) for s in h.body] != [RAISE_CODE_ERROR]:
    return False
  return [ast.dump(s) for s in stmt.body] == inner_dumps

def _kinds(test):
  """isinstance(code_block.body[-1], (ast.A, ast.B)) -> ['A', 'B']"""
  ok = (isinstance(test, ast.Call) and ast.dump(test.func) == "Name(id='isinstance', ctx=Load())" and len(test.args) == 2 and not test.keywords
        and ast.dump(test.args[0]) == ast.dump(ast.parse('code_block.body[-1]').body[0].value))
  if not ok:
    raise TranslationError('the test deciding whether the last statement is the result is not isinstance(code_block.body[-1], (...)): %s' % ast.dump(test)[:200])
  t = test.args[1]
  elts = t.elts if isinstance(t, ast.Tuple) else [t]
  out = []
  for e in elts:
    if not (isinstance(e, ast.Attribute) and isinstance(e.value, ast.Name) and e.value.id == 'ast'):
      raise TranslationError('unrecognised node class in the isinstance tuple: %s' % ast.dump(e))
    out.append(e.attr)
  return out

def _complex_assign(stmt):
  """The Assign branch: for name_node in last_expr.targets: if Name: append else: complex_assign = Module([Assign(targets, value=?)]),
  optionally followed by `if complex_assign is not None: result_vars = [RESULT_KEY]`.
  Returns ('result' when value is Name(RESULT_KEY) | 'reevaluate' when it is last_expr.value, names_first)."""
  want_if = ast.parse("if isinstance(last_expr, ast.Assign):\n  pass").body[0]
  if not (isinstance(stmt, ast.If) and ast.dump(stmt.test) == ast.dump(want_if.test) and not stmt.orelse and len(stmt.body) in (1, 2)):
    raise TranslationError('the Assign branch of the last-statement handling changed')
  # with a non-name target: are the name targets bound separately first (names_first) or only by the assignment itself?
  names_first = True
  if len(stmt.body) == 2:
    if ast.dump(stmt.body[1]) != _d("if complex_assign is not None:\n  result_vars = [RESULT_KEY]"):
      raise TranslationError('unrecognised statement after the loop over the targets: %s' % ast.dump(stmt.body[1])[:200])
    names_first = False
  loop = stmt.body[0]
  if not (isinstance(loop, ast.For) and ast.dump(loop.target) == "Name(id='name_node', ctx=Store())"
          and ast.dump(loop.iter) == ast.dump(ast.parse('last_expr.targets').body[0].value) and not loop.orelse and len(loop.body) == 1):
    raise TranslationError('the loop over the targets of the last assignment changed')
  br = loop.body[0]
  if not (isinstance(br, ast.If) and ast.dump(br.test) == ast.dump(ast.parse('isinstance(name_node, ast.Name)').body[0].value)
          and [ast.dump(s) for s in br.body] == [APPEND_NAME] and len(br.orelse) == 1):
    raise TranslationError('the name / non-name split of the targets changed')
  ca = br.orelse[0]
  for value_src, tag in (('ast.Name(id=RESULT_KEY, ctx=ast.Load())', 'result'), ('last_expr.value', 'reevaluate')):
    want = _d("complex_assign = ast.Module(body=[ast.Assign(targets=last_expr.targets, value=%s)], type_ignores=[])" % value_src)
    if ast.dump(ca) == want:
      return tag, names_first
  raise TranslationError('the assignment built for non-name targets changed: %s' % ast.dump(ca)[:300])

def translate(repo=None):
  repo = repo or REPO
  tree = ast.parse(open(os.path.join(repo, 'pyglove/core/coding/execution.py')).read())
  fn = [n for n in tree.body if isinstance(n, ast.FunctionDef) and n.name == 'evaluate']
  if not fn:
    raise TranslationError('evaluate() not found')
  body = _strip_doc(fn[0].body)
  withs = [s for s in body if isinstance(s, ast.With)]
  if len(withs) != 1 or ast.dump(withs[0].items[0].context_expr) != ast.dump(ast.parse('contextlib.redirect_stdout(stdout)').body[0].value):
    raise TranslationError('evaluate(): the redirect_stdout block was not found')
  blk = withs[0].body
  if len(blk) != 1 or not isinstance(blk[0], ast.If):
    raise TranslationError('evaluate(): the redirect_stdout block is not a single if/else')
  top = blk[0]
  kinds = _kinds(top.test)
  # --- popped branch
  b = list(top.body)
  plan = []
  def take(dump, what):
    if not b or ast.dump(b[0]) != dump:
      raise TranslationError('evaluate(): expected `%s` next in the result branch, found %s' % (what, ast.dump(b[0])[:160] if b else 'nothing'))
    b.pop(0)
  take(POP_LAST, 'last_expr = code_block.body.pop()')
  take(RESULT_VARS, 'result_vars = [RESULT_KEY]')
  take(COMPLEX_NONE, 'complex_assign = None')
  if not b:
    raise TranslationError('evaluate(): result branch ends early')
  reuse, names_first = _complex_assign(b.pop(0))
  take(TO_EXPRESSION, 'last_expr = ast.Expression(last_expr.value)')
  if not b or not _try_of(b[0], [EXEC_BODY, EVAL_LAST]):
    raise TranslationError('evaluate(): expected try: exec(body); result = eval(last) except: CodeError')
  b.pop(0); plan += ['ExecBody', 'EvalLast']
  take(BIND_NAMES, 'for result_var in result_vars: global_vars[result_var] = result'); plan.append('BindResultNames %s' % ('true' if names_first else 'false'))
  if not b:
    raise TranslationError('evaluate(): the complex assignment is never executed')
  ca = b.pop(0)
  if not (isinstance(ca, ast.If) and ast.dump(ca.test) == ast.dump(ast.parse('complex_assign is not None').body[0].value) and not ca.orelse
          and len(ca.body) == 1 and _try_of(ca.body[0], [EXEC_COMPLEX])):
    raise TranslationError('evaluate(): expected `if complex_assign is not None: try: exec(complex_assign) …`')
  plan.append('ExecComplexAssign %s' % ('true' if reuse == 'result' else 'false'))
  if b:
    raise TranslationError('evaluate(): unrecognised trailing statement in the result branch: %s' % ast.dump(b[0])[:160])
  # --- other branch
  o = list(top.orelse)
  oplan = []
  if len(o) != 2 or not _try_of(o[0], [EXEC_BODY]) or ast.dump(o[1]) != BIND_LAST_GLOBAL:
    raise TranslationError('evaluate(): the branch for other last statements changed')
  oplan = ['ExecBody', 'BindResultLastGlobal']
  # the body must not be touched between parse and this block except by the recognised statements: checked by C19's first translator
  out = ['(* GENERATED by harness/translators/eval_shape.py from evaluate() in pyglove/core/coding/execution.py. Do not edit. *)',
         'From Coq Require Import NArith List.', 'Import ListNotations.', 'From PG Require Import Gen.PermTable Model.EvalModel.', 'Local Open Scope N_scope.', '',
         '(* node classes whose instance in last position is popped and evaluated as the result *)',
         'Definition popped_kinds : list N := [%s].' % '; '.join('k_' + k for k in kinds),
         'Definition popped_plan : list estep := [%s].' % '; '.join(plan),
         'Definition other_plan : list estep := [%s].' % '; '.join(oplan),
         'Definition shape : eshape := {| sh_kinds := popped_kinds; sh_popped := popped_plan; sh_other := other_plan |}.', '']
  return '\n'.join(out), dict(kinds=kinds, plan=plan, other=oplan)

if __name__ == '__main__':
  print(translate()[0])

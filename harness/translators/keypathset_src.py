"""Translator for C10: the nested helpers of KeyPathSet.difference_update / intersection_update / update
(/repo/pyglove/core/utils/value_location.py) -> coq/Gen/KeyPathSetSrc.v

Each helper is a loop over the entries of a dict with a per-entry decision; the decision is emitted as a term of the
`dec` / `matom` languages of coq/Model/KeyPathSetMachine.v.  Fail-closed: any statement or test that is not recognised
raises TranslationError.  Reads the source with `ast` only.
"""
import ast
import os

class TranslationError(Exception):
  pass

REPO = os.environ.get('VERIF_REPO', '/repo')
SRC = 'pyglove/core/utils/value_location.py'

def _d(n): return ast.dump(n)
def _e(src): return _d(ast.parse(src, mode='eval').body)
def _s(src): return _d(ast.parse(src).body[0])

def _fail(what, node):
  raise TranslationError('%s: unrecognised shape at line %s: %s' % (what, getattr(node, 'lineno', '?'), _d(node)[:300]))

def _strip_doc(body):
  if body and isinstance(body[0], ast.Expr) and isinstance(getattr(body[0], 'value', None), ast.Constant) and isinstance(body[0].value.value, str):
    return body[1:]
  return body

def _marker(n, markers):
  if isinstance(n, ast.Constant) and isinstance(n.value, str):
    markers.add(n.value); return True
  return False

REMOVE = _s('keys_to_remove.append(key)')

def tr_test(t, name, markers):
  """-> ('insrc'|'mark', positive?)"""
  if isinstance(t, ast.Compare) and len(t.ops) == 1 and isinstance(t.left, ast.Name) and t.left.id == 'key':
    r = t.comparators[0]
    if isinstance(t.ops[0], (ast.In, ast.NotIn)) and isinstance(r, ast.Name) and r.id == 'src_dict':
      return 'insrc', isinstance(t.ops[0], ast.In)
    if isinstance(t.ops[0], (ast.Eq, ast.NotEq)) and _marker(r, markers):
      return 'mark', isinstance(t.ops[0], ast.Eq)
  _fail('%s: test' % name, t)

def tr_entry(stmts, name, markers, rec_is_bool):
  """statements executed for one (key, value) of target_dict -> dec"""
  if not stmts: return 'DKeep'
  st = stmts[0]
  if _d(st) == REMOVE and len(stmts) == 1:
    return 'DRemove'
  call = _s('%s(value, src_dict[key])' % name)
  if _d(st) == call and not rec_is_bool:
    # helper(value, src_dict[key]); if not value: <remove>
    if len(stmts) == 2 and isinstance(stmts[1], ast.If) and _d(stmts[1].test) == _e('not value'):
      return '(DRec %s %s)' % (tr_entry(stmts[1].body, name, markers, rec_is_bool), tr_entry(stmts[1].orelse, name, markers, rec_is_bool))
    _fail('%s: after the recursive call' % name, stmts[1] if len(stmts) > 1 else st)
  if isinstance(st, ast.If) and len(stmts) == 1:
    t = st.test
    if rec_is_bool and isinstance(t, ast.BoolOp) and isinstance(t.op, ast.Or) and len(t.values) == 2 \
        and _d(t.values[1]) == _e('%s(value, src_dict[key])' % name):
      # if key == '$' or helper(value, src_dict[key]): body   (the helper returns "the dict became empty")
      kind, pos = tr_test(t.values[0], name, markers)
      if kind != 'mark' or not pos: _fail('%s: left operand of `or`' % name, t)
      body = tr_entry(st.body, name, markers, rec_is_bool); other = tr_entry(st.orelse, name, markers, rec_is_bool)
      return '(DIfMark %s (DRec %s %s))' % (body, body, other)
    kind, pos = tr_test(t, name, markers)
    a = tr_entry(st.body, name, markers, rec_is_bool); b = tr_entry(st.orelse, name, markers, rec_is_bool)
    if not pos: a, b = b, a
    return '(%s %s %s)' % ('DIfInSrc' if kind == 'insrc' else 'DIfMark', a, b)
  _fail('%s: statement' % name, st)

def tr_filter_helper(fn, markers, returns_empty):
  if [a.arg for a in fn.args.args] != ['target_dict', 'src_dict'] or fn.args.defaults: _fail(fn.name + ': signature', fn)
  body = _strip_doc(fn.body)
  if len(body) < 3 or _d(body[0]) != _s('keys_to_remove = []'): _fail(fn.name + ': keys_to_remove = []', body[0])
  loop = body[1]
  if not (isinstance(loop, ast.For) and not loop.orelse and _d(loop.target) == _d(ast.parse('key, value = 0').body[0].targets[0])
          and _d(loop.iter) == _e('target_dict.items()')):
    _fail(fn.name + ': for key, value in target_dict.items()', loop)
  if _d(body[2]) != _s('for key in keys_to_remove:\n  del target_dict[key]'): _fail(fn.name + ': deletion loop', body[2])
  tail = body[3:]
  if returns_empty:
    exp = [_s('if not target_dict:\n  return True'), _s('return False')]
    if [_d(x) for x in tail] != exp: _fail(fn.name + ': must end with `if not target_dict: return True; return False`', fn)
  elif tail:
    _fail(fn.name + ': trailing statements', tail[0])
  for n in ast.walk(loop):
    if isinstance(n, (ast.Break, ast.Continue, ast.Return, ast.Delete)): _fail(fn.name + ': control flow / deletion inside the loop', n)
    if isinstance(n, ast.Subscript) and isinstance(n.ctx, ast.Store): _fail(fn.name + ': store inside the loop', n)
  return tr_entry(loop.body, fn.name, markers, returns_empty)

def tr_merge_helper(fn, markers):
  if [a.arg for a in fn.args.args] != ['target_dict', 'src_dict'] or fn.args.defaults: _fail('_merge: signature', fn)
  body = _strip_doc(fn.body)
  if len(body) != 1: _fail('_merge: body', fn)
  loop = body[0]
  if not (isinstance(loop, ast.For) and not loop.orelse and _d(loop.target) == _d(ast.parse('key, value = 0').body[0].targets[0])
          and _d(loop.iter) == _e('src_dict.items()')):
    _fail('_merge: for key, value in src_dict.items()', loop)
  if len(loop.body) != 1 or not isinstance(loop.body[0], ast.If): _fail('_merge: loop body', loop)
  st = loop.body[0]
  if [_d(x) for x in st.body] != [_s('_merge(target_dict[key], value)')]: _fail('_merge: then-branch', st)
  if [_d(x) for x in st.orelse] != [_s('target_dict[key] = copy_lib.deepcopy(value)')]: _fail('_merge: else-branch (must deep-copy)', st)
  t = st.test
  parts = t.values if isinstance(t, ast.BoolOp) and isinstance(t.op, ast.And) else [t]
  atoms = []
  for c in parts:
    if isinstance(c, ast.Compare) and len(c.ops) == 1 and isinstance(c.left, ast.Name) and c.left.id == 'key':
      r = c.comparators[0]
      if isinstance(c.ops[0], ast.NotEq) and _marker(r, markers): atoms.append('ANotMark'); continue
      if isinstance(c.ops[0], ast.In) and isinstance(r, ast.Name) and r.id == 'target_dict': atoms.append('AInTarget'); continue
    _fail('_merge: condition', c)
  return '[' + '; '.join(atoms) + ']'

def _method(cls, name):
  m = [n for n in cls.body if isinstance(n, ast.FunctionDef) and n.name == name]
  if len(m) != 1: raise TranslationError('KeyPathSet.%s not found exactly once' % name)
  return m[0]

def _helper_and_call(meth, helper, call_src):
  body = _strip_doc(meth.body)
  if len(body) != 2 or not (isinstance(body[0], ast.FunctionDef) and body[0].name == helper) or _d(body[1]) != _s(call_src):
    _fail('KeyPathSet.%s: expected `def %s(...)` followed by `%s`' % (meth.name, helper, call_src), meth)
  return body[0]

def translate():
  tree = ast.parse(open(os.path.join(REPO, SRC), encoding='utf-8').read())
  cls = [n for n in tree.body if isinstance(n, ast.ClassDef) and n.name == 'KeyPathSet']
  if len(cls) != 1: raise TranslationError('class KeyPathSet not found exactly once')
  cls = cls[0]
  markers = set()
  same = tr_filter_helper(_helper_and_call(_method(cls, 'difference_update'), '_remove_same', '_remove_same(self._trie, other._trie)'), markers, True)
  diff = tr_filter_helper(_helper_and_call(_method(cls, 'intersection_update'), '_remove_diff', '_remove_diff(self._trie, other._trie)'), markers, False)
  merge = tr_merge_helper(_helper_and_call(_method(cls, 'update'), '_merge', '_merge(self._trie, other._trie)'), markers)
  # the copying forms must be copy + in-place update
  for name, upd in (('difference', 'difference_update'), ('intersection', 'intersection_update'), ('union', 'update')):
    b = _strip_doc(_method(cls, name).body)
    var = b[0].targets[0].id if b and isinstance(b[0], ast.Assign) and isinstance(b[0].targets[0], ast.Name) else None
    exp = ['%s = self.copy()' % var, '%s.%s(other)' % (var, upd), 'return %s' % var]
    if var is None or [_d(x) for x in b] != [_s(x) for x in exp]: _fail('KeyPathSet.%s is not copy + %s' % (name, upd), _method(cls, name))
  if [_d(x) for x in _strip_doc(_method(cls, 'copy').body)] != [_s('return copy_lib.deepcopy(self)')]:
    _fail('KeyPathSet.copy is not a deep copy', _method(cls, 'copy'))
  if len(markers) != 1: raise TranslationError('expected one marker constant, found %r' % sorted(markers))
  mk = '[' + '; '.join('%d%%N' % ord(c) for c in markers.pop()) + ']'
  text = ('(* KeyPathSetSrc.v — GENERATED by harness/translators/keypathset_src.py from %s on every run; do not edit.\n'
          '   The per-entry decisions of _remove_same / _remove_diff / _merge as data of Model/KeyPathSetMachine.v. *)\n'
          'From Coq Require Import NArith List.\nImport ListNotations.\n'
          'From PG Require Import Model.KeyPathSetMachine.\n\n'
          'Definition src_kps : kps_src :=\n  {| ks_same := %s;\n     ks_diff := %s;\n     ks_merge := %s;\n     ks_marker := %s |}.\n') % (SRC, same, diff, merge, mk)
  return text, dict(same=same, diff=diff, merge=merge)

if __name__ == '__main__':
  print(translate()[0])

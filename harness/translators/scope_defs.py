"""Translator for C17: scoped-setting context managers of /repo -> coq/Gen/ScopeDefs.v

A small compiler from the Python subset that the thread-local scope functions are written in
(assignment from a thread_local primitive, `if/else`, `try: ...; yield; finally: ...`, `return expr`)
to Gallina over the primitives of coq/Model/ScopesBase.v.  Fail-closed: any statement or expression
shape outside the subset raises TranslationError and the caller treats the regenerated obligation as
broken.  The source is only read with `ast`; pyglove is never imported.

Also: `for k, v in d.items():` with one loop-carried variable (fold), getattr/setattr on a parameter holding a
threading.local, module-level variables and `self.<list>` kept in the process-wide store, procedures of another
module inlined at the call site (renamed apart; literal True/False arguments select branches statically), `assert`
before the yield (= entering fails), `if <test on parameters>: raise` argument validation (skipped, noted),
`except Exception: flag = True; raise` (accepted when the flag only guards user callbacks).

Translated:   thread_local.py  thread_local_value_scope, thread_local_arg_scope, thread_local_kwargs
              contextual.py    contextual_scope (the cascade loop)
              hyper/base.py + hyper/dynamic_evaluation.py   get_dynamic_evaluate_fn, dynamic_evaluate (set_dynamic_evaluate_fn inlined)
              json_conversion.py  _TypeRegistry.load_types_for_deserialization
              permissions.py   permission, get_permission
              execution.py     context, get_context
              views/base.py    view_options
              timing.py        TimeIt.__enter__ / __exit__
              flags.py         every `return thread_local.thread_local_value_scope(KEY, arg, INITIAL)` and its getter
              formatting.py    str_format / repr_format (instances of thread_local_arg_scope)
Checked by fingerprint (modelled by hand in ScopesBase.v): thread_local_has/get/set/del/map/push/peek/pop.
              class_detour.py  _DetourContext.current_mappings / enter_scope / leave_scope (sequences of pairs, `in`, item loads,
                               `self.<lazily created thread-local list>`, bookkeeping blocks on `_original_new` skipped)
Pinned by fingerprint only: _DetourContext._detour_stack (the lazily created list) and the shape of detour().
"""
import ast
import hashlib
import os

class TranslationError(Exception):
  pass

REPO = os.environ.get('VERIF_REPO', '/repo')

PRIMS_READ = {'thread_local_has': ('tl_has', 1), 'thread_local_get': ('tl_get', 2), 'thread_local_peek': ('tl_peek', 2)}
PRIMS_WRITE = {'thread_local_set': ('tl_set', 2), 'thread_local_del': ('tl_del', 1), 'thread_local_push': ('tl_push', 2),
               'thread_local_pop': ('tl_pop', (1, 2))}
PRIM_OWNERS = ('utils', 'thread_local')

# sha256 of ast.dump (docstring stripped) of the primitives that ScopesBase.v models by hand
PRIM_FINGERPRINTS = {
    'thread_local_has': '5e0956109fc9534d',
    'thread_local_set': '78349db3a16c03b3',
    'thread_local_get': '01155d010f3ba1c4',
    'thread_local_del': 'e4f7c8a09f17b86c',
    'thread_local_map': 'de0689326d0a66dd',
    'thread_local_push': '2e22232c1e0a0eb2',
    'thread_local_peek': 'aff5310241a92b26',
    'thread_local_pop': 'f4ee5c4d91de75aa',
}

CONTEXT_FINGERPRINTS = {
    'DynamicEvaluationContext.apply': '7fc307b818da97a9', 'DynamicEvaluationContext.collect': 'c062a088d906f829',
    '_DynamicEvaluationStack.__init__': 'cd535830123445c5', '_DynamicEvaluationStack._local_stack': '5dde59cb5f464047',
    '_DynamicEvaluationStack.ensure_thread_safety': '6c65e1912965907f', '_DynamicEvaluationStack.pop': '1e5a6d7668af10bf',
    '_DynamicEvaluationStack.push': '906d90b7a3e51c0b',
}

HAND_WRITTEN_FINGERPRINTS = {'_detour_stack': 'b7f8c4a684be4e1f', 'current_mappings': '5e387196a2195dc3', 'enter_scope': '7500c5fc2dcf6b3d',
                             'leave_scope': 'c72ee86326603d9b', 'detour': '2ad472612f019603'}

SPEC_FLAGS = ['notify_on_change', 'enable_type_check', 'allow_partial', 'as_sealed', 'allow_writable_accessors',
              'track_origin', 'auto_call_functors']


def _strip_doc(body):
  if body and isinstance(body[0], ast.Expr) and isinstance(getattr(body[0], 'value', None), ast.Constant) \
      and isinstance(body[0].value.value, str):
    return body[1:]
  return body


def _parse(path):
  try:
    return ast.parse(open(path).read())
  except (OSError, SyntaxError) as e:
    raise TranslationError('cannot read %s: %s' % (path, e))


def _module_consts(tree):
  out = {}
  for n in tree.body:
    if isinstance(n, ast.Assign) and len(n.targets) == 1 and isinstance(n.targets[0], ast.Name) \
        and isinstance(n.value, ast.Constant) and isinstance(n.value.value, str):
      out[n.targets[0].id] = n.value.value
  return out


def _find_fn(tree, name, cls=None):
  body = tree.body
  if cls is not None:
    c = [n for n in tree.body if isinstance(n, ast.ClassDef) and n.name == cls]
    if len(c) != 1:
      raise TranslationError('class %s not found' % cls)
    body = c[0].body
  f = [n for n in body if isinstance(n, ast.FunctionDef) and n.name == name]
  if len(f) != 1:
    raise TranslationError('function %s%s not found' % (cls + '.' if cls else '', name))
  return f[0]


def fingerprint(fn):
  """sha256 of the function's AST with the docstring and annotations stripped and the local variables (parameters and
  assigned names) renamed in order of first occurrence, so that renaming a local is not a change."""
  import copy
  f = copy.deepcopy(fn)
  f.body = _strip_doc(f.body)
  f.returns = None
  bound = []
  for a in ast.walk(f):
    if isinstance(a, ast.arg):
      a.annotation = None
      if a.arg not in bound and a.arg not in ('self', 'cls'):
        bound.append(a.arg)
  for n in ast.walk(f):
    if isinstance(n, ast.Name) and isinstance(n.ctx, ast.Store) and n.id not in bound:
      bound.append(n.id)
  declared = set()
  for n in ast.walk(f):
    if isinstance(n, (ast.Global, ast.Nonlocal)):
      declared |= set(n.names)
  ren = {b: 'v%d' % i for i, b in enumerate(x for x in bound if x not in declared)}
  for n in ast.walk(f):
    if isinstance(n, ast.Name) and n.id in ren:
      n.id = ren[n.id]
    if isinstance(n, ast.arg) and n.arg in ren:
      n.arg = ren[n.arg]
    if isinstance(n, ast.AnnAssign):
      n.annotation = ast.Constant(value=None)
  return hashlib.sha256(ast.dump(f, annotate_fields=True, include_attributes=False).encode()).hexdigest()[:16]


def _is_cm(fn):
  return any(ast.dump(d) in ("Attribute(value=Name(id='contextlib', ctx=Load()), attr='contextmanager', ctx=Load())",)
             for d in fn.decorator_list)


class Keys:
  """Key strings -> dense indices, per namespace (which threading.local object holds them)."""
  def __init__(self):
    self.items = []     # (namespace, string, ident)
  def add(self, ns, s, ident=None):
    for i, (n2, s2, _) in enumerate(self.items):
      if n2 == ns and s2 == s:
        return i
    if ident is None:
      ident = 'k_' + ''.join(c if c.isalnum() else '_' for c in s)
      if ns != 'tls':
        ident = 'k_%s_%s' % (ns, ''.join(c if c.isalnum() else '_' for c in s))
    self.items.append((ns, s, ident))
    return len(self.items) - 1
  def ident(self, ns, s):
    return self.items[self.add(ns, s)][2]


class Fn:
  """Compiles one function body to Gallina (continuation style: the rest of the block is duplicated under both
  branches of an `if`, so every path is straight-line and definedness is checked per path)."""
  def __init__(self, fn, consts, keys, pure_fns, self_attrs=None, ignorable_methods=(), tls_objects=None):
    self.fn, self.consts, self.keys, self.pure_fns = fn, consts, keys, pure_fns
    self.tls_objects = dict(tls_objects or {})   # parameter holding a threading.local -> key namespace
    self.use_global = False      # thread the process-wide store (gst) as well
    self.global_vars = {}        # module-level variable name -> process-wide key ident
    self.global_attrs = {}       # self.<attr> holding a process-wide list -> process-wide key ident
    self.extern = {}             # imported module name -> dict(consts=..., globals=..., tree=...)
    self.key_locals = {}         # local variable that only names a key -> key ident
    self.known = {}              # local bound once to a literal True/False -> that value (static branch selection)
    self.notes = []
    self.inline_count = 0
    self.vararg_dict = None      # (*param, exact dict-comprehension dump) treated as one dict parameter
    self.tls_list_attrs = {}     # self.<property> that is a lazily created list kept in a threading.local -> key ident
    self.property_getters = {}   # self.<property> -> Coq name of the translated getter
    self.ignored_attrs = set()   # self.<attr> holding process-wide bookkeeping that is not a setting: blocks guarded by it are skipped
    self.pair_lists = set()      # parameters / locals that are sequences of pairs
    self.self_attrs = dict(self_attrs or {})      # attribute name -> initial Gallina value (class based managers)
    self.ignorable = set(ignorable_methods)
    a = fn.args
    if a.posonlyargs:
      raise TranslationError('%s: unsupported parameter list' % fn.name)
    self.vararg = a.vararg.arg if a.vararg else None
    self.params = [x.arg for x in a.args] + [x.arg for x in a.kwonlyargs] + ([a.kwarg.arg] if a.kwarg else [])
    if self.vararg:
      self.params.insert(len(a.args), self.vararg)
    self.params = [x for x in self.params if x not in self.tls_objects]
    self.key_params = set()
    self.used_keys = []
    self.assigned = set()
    for n in ast.walk(fn):
      if isinstance(n, ast.Name) and isinstance(n.ctx, ast.Store):
        self.assigned.add(n.id)
    self._find_key_params()

  def err(self, node, msg):
    raise TranslationError('%s line %s: %s' % (self.fn.name, getattr(node, 'lineno', '?'), msg))

  # -- recognisers -------------------------------------------------------------------------------
  def prim(self, call):
    f = call.func
    if isinstance(f, ast.Name):
      return f.id if f.id in PRIMS_READ or f.id in PRIMS_WRITE else None
    if isinstance(f, ast.Attribute) and isinstance(f.value, ast.Name) and f.value.id in PRIM_OWNERS:
      return f.attr if f.attr in PRIMS_READ or f.attr in PRIMS_WRITE else None
    return None

  def _find_key_params(self):
    for n in ast.walk(self.fn):
      if isinstance(n, ast.Call) and self.prim(n) and n.args and isinstance(n.args[0], ast.Name) \
          and n.args[0].id in self.params:
        self.key_params.add(n.args[0].id)
    for n in ast.walk(self.fn):
      if isinstance(n, ast.Name) and n.id in self.key_params and n.id in self.assigned:
        self.err(n, 'key parameter %s is reassigned' % n.id)

  def var(self, name):
    return 'p_' + name

  # -- expressions ---------------------------------------------------------------------------------
  def K(self, node, ns='tls'):
    if isinstance(node, ast.Constant) and isinstance(node.value, str):
      self.used_keys.append(node.value)
      return self.keys.ident(ns, node.value)
    if isinstance(node, ast.Name):
      if node.id in self.key_params:
        return self.var(node.id)
      if node.id in self.key_locals:
        return self.key_locals[node.id]
      if node.id in self.consts:
        self.used_keys.append(self.consts[node.id])
        return self.keys.ident(ns, self.consts[node.id])
    if isinstance(node, ast.Attribute) and isinstance(node.value, ast.Name) and node.attr in self.consts \
        and node.value.id in ('self', 'cls'):
      return self.keys.ident(ns, self.consts[node.attr])
    s = self.extern_const(node)
    if s is not None:
      self.used_keys.append(s)
      return self.keys.ident(ns, s)
    self.err(node, 'unrecognised key expression %s' % ast.dump(node))

  def extern_const(self, node):
    if isinstance(node, ast.Attribute) and isinstance(node.value, ast.Name) and node.value.id in self.extern \
        and node.attr in self.extern[node.value.id]['consts']:
      return self.extern[node.value.id]['consts'][node.attr]
    return None

  def global_ref(self, node):
    """module-level variable / self.<attr> kept in the process-wide store -> key ident"""
    if isinstance(node, ast.Name) and node.id in self.global_vars:
      return self.global_vars[node.id]
    if isinstance(node, ast.Attribute) and isinstance(node.value, ast.Name):
      if node.value.id in self.extern and node.attr in self.extern[node.value.id]['globals']:
        return self.extern[node.value.id]['globals'][node.attr]
      if node.value.id == 'self' and node.attr in self.global_attrs:
        return self.global_attrs[node.attr]
    return None

  def tls_call(self, call, name, nargs):
    """getattr(tls, KEY, default) / setattr(tls, KEY, value) on a parameter that holds a threading.local"""
    return (isinstance(call.func, ast.Name) and call.func.id == name and len(call.args) == nargs and not call.keywords
            and isinstance(call.args[0], ast.Name) and call.args[0].id in self.tls_objects)

  def E(self, node, env):
    if isinstance(node, ast.Constant):
      if node.value is None: return 'v_none'
      if node.value is True: return 'v_true'
      if node.value is False: return 'v_false'
      self.err(node, 'unsupported constant %r' % (node.value,))
    if isinstance(node, ast.Dict) and not node.keys:
      return 'v_empty_dict'
    if isinstance(node, ast.Attribute) and isinstance(node.value, ast.Name) and node.value.id == 'self':
      if node.attr in self.tls_list_attrs:
        return '(tl_get %s v_none st)' % self.tls_list_attrs[node.attr]
      if node.attr in self.property_getters:
        return '(%s st)' % self.property_getters[node.attr]
    if isinstance(node, ast.List) and not node.elts:
      return 'v_empty_dict'                      # an empty sequence of pairs
    if isinstance(node, ast.Call) and isinstance(node.func, ast.Name) and node.func.id == 'dict' and not node.args and not node.keywords:
      return 'v_empty_dict'
    if isinstance(node, ast.Subscript) and isinstance(node.value, ast.Name) and isinstance(node.slice, ast.Name) and isinstance(node.ctx, ast.Load):
      return '(py_dict_get %s %s v_none)' % (self.E(node.value, env), self.E(node.slice, env))
    g = self.global_ref(node)
    if g is not None:
      if not self.use_global:
        self.err(node, 'process-wide variable read in a function translated without the process-wide store')
      return '(tl_get %s v_none gst)' % g
    if self.vararg_dict and isinstance(node, ast.DictComp) and ast.dump(node) == self.vararg_dict[1]:
      return self.var(self.vararg_dict[0])
    if isinstance(node, ast.BoolOp) and len(node.values) == 2:
      a, b = self.E(node.values[0], env), self.E(node.values[1], env)
      if isinstance(node.op, ast.And):
        return '(if truthy %s then %s else %s)' % (a, b, a)
      return '(if truthy %s then %s else %s)' % (a, a, b)
    if isinstance(node, ast.Name):
      if node.id in self.key_params:
        self.err(node, 'key parameter %s used as a value' % node.id)
      if node.id in env:
        return self.var(node.id)
      self.err(node, 'variable %s may be undefined here' % node.id)
    if isinstance(node, ast.Attribute) and isinstance(node.value, ast.Name) and node.value.id == 'self':
      nm = 'self_' + node.attr
      if nm in env:
        return self.var(nm)
      self.err(node, 'attribute self.%s has no known value here' % node.attr)
    if isinstance(node, ast.Attribute) and isinstance(node.value, ast.Name) and node.attr == 'cascade' and node.value.id in env:
      return '(py_attr_cascade %s)' % self.var(node.value.id)
    if isinstance(node, ast.IfExp):
      return '(if %s then %s else %s)' % (self.C(node.test, env), self.E(node.body, env), self.E(node.orelse, env))
    if isinstance(node, ast.Subscript):
      if ast.dump(node.slice) == "UnaryOp(op=USub(), operand=Constant(value=1))":
        return '(py_last %s)' % self.E(node.value, env)
      self.err(node, 'unsupported subscript')
    if isinstance(node, ast.Call):
      p = self.prim(node)
      if p in PRIMS_READ:
        name, n = PRIMS_READ[p]
        if len(node.args) != n or node.keywords:
          self.err(node, '%s must be called with %d positional arguments' % (p, n))
        args = [self.K(node.args[0])] + [self.E(x, env) for x in node.args[1:]]
        return '(%s %s st)' % (name, ' '.join(args))
      if p in PRIMS_WRITE:
        self.err(node, '%s used as an expression' % p)
      f = node.func
      if self.tls_call(node, 'getattr', 3):
        return '(tl_get %s %s st)' % (self.K(node.args[1], self.tls_objects[node.args[0].id]), self.E(node.args[2], env))
      if isinstance(f, ast.Attribute) and f.attr == 'get' and len(node.args) == 2 and not node.keywords:
        return '(py_dict_get %s %s %s)' % (self.E(f.value, env), self.E(node.args[0], env), self.E(node.args[1], env))
      if isinstance(f, ast.Attribute) and f.attr == 'copy' and not node.args and not node.keywords:
        return '(py_copy %s)' % self.E(f.value, env)
      if isinstance(f, ast.Name) and f.id == 'dict' and len(node.args) == 1 and not node.keywords:
        return '(py_copy %s)' % self.E(node.args[0], env)
      if ast.dump(f) == "Attribute(value=Name(id='utils', ctx=Load()), attr='merge', ctx=Load())" and len(node.args) == 1 \
          and isinstance(node.args[0], ast.List) and len(node.args[0].elts) == 2 and not node.keywords:
        a, b = node.args[0].elts
        return '(py_merge2 %s %s)' % (self.E(a, env), self.E(b, env))
      if isinstance(f, ast.Name) and f.id in self.pure_fns and not node.args and not node.keywords:
        return '(%s st)' % self.pure_fns[f.id]
      self.err(node, 'unrecognised call %s' % ast.dump(f))
    self.err(node, 'unrecognised expression %s' % type(node).__name__)

  def static(self, node):
    """True/False when the condition is decided by a local bound once to a literal, else None"""
    if isinstance(node, ast.Name) and node.id in self.known:
      return self.known[node.id]
    if isinstance(node, ast.UnaryOp) and isinstance(node.op, ast.Not):
      v = self.static(node.operand)
      return None if v is None else (not v)
    return None

  def C(self, node, env):
    if isinstance(node, ast.Compare) and len(node.ops) == 1 and isinstance(node.comparators[0], ast.Constant) \
        and node.comparators[0].value is None:
      if isinstance(node.ops[0], ast.Is):
        return '(is_none %s)' % self.E(node.left, env)
      if isinstance(node.ops[0], ast.IsNot):
        return '(negb (is_none %s))' % self.E(node.left, env)
    if isinstance(node, ast.UnaryOp) and isinstance(node.op, ast.Not):
      return '(negb %s)' % self.C(node.operand, env)
    if isinstance(node, ast.Compare) and len(node.ops) == 1 and isinstance(node.ops[0], (ast.In, ast.NotIn)):
      c = '(py_contains %s %s)' % (self.E(node.comparators[0], env), self.E(node.left, env))
      return c if isinstance(node.ops[0], ast.In) else '(negb %s)' % c
    if isinstance(node, ast.BoolOp):
      op = ' && ' if isinstance(node.op, ast.And) else ' || '
      return '(' + op.join(self.C(v, env) for v in node.values) + ')'
    if isinstance(node, (ast.Name, ast.Attribute)):
      return '(truthy %s)' % self.E(node, env)
    self.err(node, 'unrecognised condition %s' % ast.dump(node))

  # -- statements ------------------------------------------------------------------------------------
  def S(self, stmts, env, k, ind):
    """Gallina text for `stmts` followed by the continuation k(env)."""
    if not stmts:
      return k(env)
    s, rest = stmts[0], stmts[1:]
    pad = '  ' * ind
    if isinstance(s, (ast.Global, ast.Pass)):
      return self.S(rest, env, k, ind)
    if isinstance(s, ast.Delete):
      # `del a, b` of plain parameters that are not used afterwards
      names = [t.id for t in s.targets if isinstance(t, ast.Name)]
      if len(names) != len(s.targets):
        self.err(s, 'unsupported del')
      return self.S(rest, [e for e in env if e not in names], k, ind)
    if isinstance(s, ast.Assign) and len(s.targets) == 1 and isinstance(s.targets[0], ast.Subscript) \
        and isinstance(s.targets[0].value, ast.Name):
      x = s.targets[0].value.id
      if x not in env or x in self.params or x not in self.fresh_copies:
        self.err(s, 'item assignment on %s which is not known to be a fresh local copy (aliasing)' % x)
      return '%slet %s := py_setitem %s %s %s in\n%s' % (pad, self.var(x), self.var(x), self.E(s.targets[0].slice, env), self.E(s.value, env),
                                                         self.S(rest, env, k, ind))
    if isinstance(s, ast.Expr) and isinstance(s.value, ast.Call) and self.tls_call(s.value, 'setattr', 3):
      c = s.value
      return '%slet st := tl_set %s %s st in\n%s' % (pad, self.K(c.args[1], self.tls_objects[c.args[0].id]), self.E(c.args[2], env), self.S(rest, env, k, ind))
    if isinstance(s, ast.For):
      return self.loop(s, rest, env, k, ind)
    # argument validation: `if <test on parameters>: raise ...` before anything is read or written
    if isinstance(s, ast.If) and len(s.body) == 1 and isinstance(s.body[0], ast.Raise) and not s.orelse and self.phase == 'enter' and not self.touched:
      names = {n.id for n in ast.walk(s.test) if isinstance(n, ast.Name)}
      if names <= set(self.params) | {'callable', 'isinstance'}:
        self.notes.append('argument validation `if %s: raise` not modelled' % ast.unparse(s.test))
        return self.S(rest, env, k, ind)
    if isinstance(s, ast.If) and any(isinstance(n, ast.Attribute) and isinstance(n.value, ast.Name) and n.value.id == 'self' and n.attr in self.ignored_attrs
                                      for n in ast.walk(s.test)):
      # bookkeeping that is not a setting (e.g. remembering the original __new__ of a detoured class): the block may not touch anything modelled
      for n in ast.walk(ast.Module(body=list(s.body) + list(s.orelse), type_ignores=[])):
        if isinstance(n, ast.Call) and (self.prim(n) or self.tls_call(n, 'setattr', 3)):
          self.err(n, 'thread-local access inside a bookkeeping block')
        if isinstance(n, ast.Attribute) and isinstance(n.value, ast.Name) and n.value.id == 'self' and n.attr not in self.ignored_attrs:
          self.err(n, 'bookkeeping block touches self.%s' % n.attr)
        if isinstance(n, ast.Name) and isinstance(n.ctx, ast.Store):
          self.err(n, 'bookkeeping block assigns a local')
      self.notes.append('bookkeeping block `if %s:` not modelled' % ast.unparse(s.test))
      return self.S(rest, env, k, ind)
    if isinstance(s, ast.Assert):
      if self.phase != 'enter':
        # leaving would raise and change nothing
        return '%sif %s then\n%s\n%selse %s' % (pad, self.C(s.test, env), self.S(rest, env, k, ind + 1), pad, '(st, gst)' if self.use_global else 'st')
      return '%sif %s then\n%s\n%selse None' % (pad, self.C(s.test, env), self.S(rest, env, k, ind + 1), pad)
    # a local that only names a key
    if isinstance(s, ast.Assign) and len(s.targets) == 1 and isinstance(s.targets[0], ast.Name):
      ks = self.extern_const(s.value)
      if ks is None and isinstance(s.value, ast.Name) and s.value.id in self.consts:
        ks = self.consts[s.value.id]
      if ks is not None:
        nm = s.targets[0].id
        uses = [n for n in ast.walk(self.fn) if isinstance(n, ast.Name) and n.id == nm and isinstance(n.ctx, ast.Load)]
        self.key_locals[nm] = self.keys.ident('tls', ks)
        self.used_keys.append(ks)
        return self.S(rest, env, k, ind)
    # assignment to a module-level variable kept in the process-wide store
    if isinstance(s, ast.Assign) and len(s.targets) == 1 and self.global_ref(s.targets[0]) is not None:
      if not self.use_global:
        self.err(s, 'process-wide variable written in a function translated without the process-wide store')
      self.touched = True
      return '%slet gst := tl_set %s %s gst in\n%s' % (pad, self.global_ref(s.targets[0]), self.E(s.value, env), self.S(rest, env, k, ind))
    if isinstance(s, ast.Expr) and isinstance(s.value, ast.Call):
      c = s.value
      f = c.func
      # self.<global list>.append(x) / .pop()
      if isinstance(f, ast.Attribute) and self.global_ref(f.value) is not None and f.attr in ('append', 'pop'):
        g = self.global_ref(f.value)
        self.touched = True
        if f.attr == 'append' and len(c.args) == 1 and not c.keywords:
          return '%slet gst := tl_push %s %s gst in\n%s' % (pad, g, self.E(c.args[0], env), self.S(rest, env, k, ind))
        if f.attr == 'pop' and not c.keywords and (not c.args or ast.dump(c.args[0]) == 'UnaryOp(op=USub(), operand=Constant(value=1))'):
          return '%slet gst := tl_pop %s gst in\n%s' % (pad, g, self.S(rest, env, k, ind))
        self.err(s, 'unsupported call on a process-wide list')
      # self.<thread-local list>.append(x) / .pop(-1)
      if isinstance(f, ast.Attribute) and isinstance(f.value, ast.Attribute) and isinstance(f.value.value, ast.Name) \
          and f.value.value.id == 'self' and f.value.attr in self.tls_list_attrs and f.attr in ('append', 'pop'):
        kk = self.tls_list_attrs[f.value.attr]
        self.touched = True
        if f.attr == 'append' and len(c.args) == 1 and not c.keywords:
          return '%slet st := tl_push %s %s st in\n%s' % (pad, kk, self.E(c.args[0], env), self.S(rest, env, k, ind))
        if f.attr == 'pop' and not c.keywords and (not c.args or ast.dump(c.args[0]) == 'UnaryOp(op=USub(), operand=Constant(value=1))'):
          return '%slet st := tl_pop %s st in\n%s' % (pad, kk, self.S(rest, env, k, ind))
        self.err(s, 'unsupported call on a thread-local list')
      # pairs.append((a, b)) on a local sequence of pairs
      if isinstance(f, ast.Attribute) and f.attr == 'append' and isinstance(f.value, ast.Name) and f.value.id in self.pair_lists \
          and len(c.args) == 1 and isinstance(c.args[0], ast.Tuple) and len(c.args[0].elts) == 2 and not c.keywords:
        x = f.value.id
        if x not in env or x in self.params:
          self.err(s, '.append() on something that is not a local')
        a, b = c.args[0].elts
        return '%slet %s := py_append_pair %s %s %s in\n%s' % (pad, self.var(x), self.var(x), self.E(a, env), self.E(b, env), self.S(rest, env, k, ind))
      # a user callback passed as a parameter
      if isinstance(f, ast.Name) and f.id in self.params and f.id not in self.assigned and not c.args and not c.keywords:
        self.notes.append('user callback %s() not modelled' % f.id)
        return self.S(rest, env, k, ind)
      # a procedure of another translated module: inlined
      proc = self.procedure(f)
      if proc is not None:
        return self.inline(proc, c, rest, env, k, ind)
    if isinstance(s, ast.Assign) and len(s.targets) == 1:
      t = s.targets[0]
      if isinstance(t, ast.Name):
        nm = t.id
      elif isinstance(t, ast.Attribute) and isinstance(t.value, ast.Name) and t.value.id == 'self':
        nm = 'self_' + t.attr
      else:
        self.err(s, 'unsupported assignment target')
      rhs = self.E(s.value, env)
      if isinstance(s.value, ast.Constant) and s.value.value in (True, False) and self.assign_count.get(nm, 0) == 1:
        self.known[nm] = s.value.value
      env2 = env if nm in env else env + [nm]
      if nm in self.self_attrs and ('assigned!' + nm) not in env2:
        env2 = env2 + ['assigned!' + nm]       # the attribute no longer holds what a previous use of the object left in it
      return '%slet %s := %s in\n%s' % (pad, self.var(nm), rhs, self.S(rest, env2, k, ind))
    if isinstance(s, ast.Expr) and isinstance(s.value, ast.Call):
      c = s.value
      p = self.prim(c)
      if p in PRIMS_WRITE:
        name, n = PRIMS_WRITE[p]
        ns = n if isinstance(n, tuple) else (n,)
        if len(c.args) not in ns or c.keywords:
          self.err(s, '%s called with an unexpected number of arguments' % p)
        self.touched = True
        nval = 1 if p in ('thread_local_set', 'thread_local_push') else 0
        args = [self.K(c.args[0])] + [self.E(x, env) for x in c.args[1:1 + nval]]
        if p == 'thread_local_pop' and len(c.args) == 2 and not (isinstance(c.args[1], ast.Constant) and c.args[1].value is None):
          self.err(s, 'thread_local_pop default must be None')
        return '%slet st := %s %s st in\n%s' % (pad, name, ' '.join(args), self.S(rest, env, k, ind))
      f = c.func
      if isinstance(f, ast.Attribute) and f.attr == 'update' and isinstance(f.value, ast.Name) and len(c.args) == 1 and not c.keywords:
        x = f.value.id
        if x not in env or x in self.params:
          self.err(s, '.update() on something that is not a local copy')
        if x not in self.fresh_copies:
          self.err(s, '.update() on %s which is not known to be a fresh copy (aliasing)' % x)
        return '%slet %s := py_update %s %s in\n%s' % (pad, self.var(x), self.var(x), self.E(c.args[0], env), self.S(rest, env, k, ind))
      if isinstance(f, ast.Attribute) and f.attr in self.ignorable and isinstance(f.value, ast.Name):
        return self.S(rest, env, k, ind)      # a method known not to touch thread-local state
      self.err(s, 'unrecognised call statement %s' % ast.dump(f))
    if isinstance(s, ast.If) and self.static(s.test) is not None:
      return self.S((list(s.body) if self.static(s.test) else list(s.orelse)) + rest, env, k, ind)
    if isinstance(s, ast.If):
      c = self.C(s.test, env)
      a = self.S(list(s.body) + rest, env, k, ind + 1)
      b = self.S(list(s.orelse) + rest, env, k, ind + 1)
      return '%sif %s then\n%s\n%selse\n%s' % (pad, c, a, pad, b)
    self.err(s, 'unrecognised statement %s' % type(s).__name__)

  def procedure(self, f):
    if isinstance(f, ast.Attribute) and isinstance(f.value, ast.Name) and f.value.id in self.extern:
      procs = self.extern[f.value.id].get('procs', {})
      if f.attr in procs:
        return (f.value.id, procs[f.attr])
    return None

  def inline(self, proc, call, rest, env, k, ind):
    """Inlines `mod.proc(args)`: parameters are bound to the argument expressions, the body (renamed apart) is
    spliced in front of the rest; literal True/False arguments select branches statically."""
    mod, fn = proc
    self.inline_count += 1
    pre = 'q%d_' % self.inline_count
    params = [a.arg for a in fn.args.args]
    if fn.args.vararg or fn.args.kwarg or fn.args.kwonlyargs or fn.args.defaults:
      self.err(call, 'unsupported signature of inlined procedure %s' % fn.name)
    bound = {}
    for p_, a in zip(params, call.args):
      bound[p_] = a
    for kw in call.keywords:
      if kw.arg not in params or kw.arg in bound:
        self.err(call, 'bad keyword argument for %s' % fn.name)
      bound[kw.arg] = kw.value
    if set(bound) != set(params):
      self.err(call, 'arity mismatch calling %s' % fn.name)
    body = _strip_doc(fn.body)
    locals_ = set(params)
    declared_global = set()
    for n in ast.walk(fn):
      if isinstance(n, ast.Global):
        declared_global |= set(n.names)
      if isinstance(n, ast.Name) and isinstance(n.ctx, ast.Store):
        locals_.add(n.id)
      if isinstance(n, (ast.Return, ast.Yield, ast.YieldFrom, ast.For, ast.While, ast.Try, ast.With, ast.Raise)):
        self.err(call, 'unsupported control flow in inlined procedure %s' % fn.name)
    locals_ -= declared_global
    ext = self.extern[mod]
    class Rn(ast.NodeTransformer):
      def visit_Name(self_, node):
        if node.id in locals_:
          return ast.copy_location(ast.Name(id=pre + node.id, ctx=node.ctx), node)
        if node.id in ext['consts'] or node.id in ext['globals']:
          # a name of the callee's module: refer to it through the module
          return ast.copy_location(ast.Attribute(value=ast.Name(id=mod, ctx=ast.Load()), attr=node.id, ctx=node.ctx), node)
        return node
    import copy
    new_body = [Rn().visit(copy.deepcopy(st_)) for st_ in body if not isinstance(st_, ast.Global)]
    binds = [ast.copy_location(ast.Assign(targets=[ast.Name(id=pre + p_, ctx=ast.Store())], value=bound[p_], lineno=call.lineno), call) for p_ in params]
    for b in binds + new_body:
      ast.fix_missing_locations(b)
    for b in binds:
      self.assign_count[b.targets[0].id] = 1 + sum(1 for n in ast.walk(ast.Module(body=new_body, type_ignores=[]))
                                                   if isinstance(n, ast.Name) and isinstance(n.ctx, ast.Store) and n.id == b.targets[0].id)
    self.inlined_locals |= {pre + x for x in locals_}
    return self.S(binds + new_body + rest, env, k, ind)

  def loop(self, s, rest, env, k, ind):
    """for a, b in X.items(): body   ->   fold over the dict with the single loop-carried variable"""
    pad = '  ' * ind
    tgt = isinstance(s.target, ast.Tuple) and len(s.target.elts) == 2 and all(isinstance(e, ast.Name) for e in s.target.elts) and not s.orelse
    items = (tgt and isinstance(s.iter, ast.Call) and isinstance(s.iter.func, ast.Attribute) and s.iter.func.attr == 'items'
             and isinstance(s.iter.func.value, ast.Name) and not s.iter.args)
    pairs = tgt and isinstance(s.iter, ast.Name) and s.iter.id in self.pair_lists
    if not (items or pairs):
      self.err(s, 'unsupported for loop (only `for a, b in X.items():` or over a sequence of pairs)')
    for n in ast.walk(ast.Module(body=list(s.body), type_ignores=[])):
      if isinstance(n, (ast.Break, ast.Continue, ast.Return, ast.Yield, ast.YieldFrom, ast.Raise, ast.For, ast.While, ast.Try, ast.With)):
        self.err(n, 'unsupported control flow inside a for loop')
      if isinstance(n, ast.Call) and (self.prim(n) in PRIMS_WRITE or self.tls_call(n, 'setattr', 3)):
        self.err(n, 'thread-local write inside a for loop')
    kv = [e.id for e in s.target.elts]
    src = s.iter.func.value.id if items else s.iter.id
    if src not in env or src in kv:
      self.err(s, 'loop source %s' % src)
    assigned = set()
    for n in ast.walk(ast.Module(body=list(s.body), type_ignores=[])):
      if isinstance(n, ast.Name) and isinstance(n.ctx, ast.Store):
        assigned.add(n.id)
      if isinstance(n, ast.Subscript) and isinstance(n.ctx, ast.Store) and isinstance(n.value, ast.Name):
        assigned.add(n.value.id)
      if isinstance(n, ast.Call) and isinstance(n.func, ast.Attribute) and n.func.attr in ('update', 'append') and isinstance(n.func.value, ast.Name):
        assigned.add(n.func.value.id)
    carried = sorted(a for a in assigned if a in env and a not in kv)
    if len(carried) != 1:
      self.err(s, 'a for loop must update exactly one variable defined before it, found %s' % carried)
    c = carried[0]
    for a in assigned - {c} - set(kv):
      # iteration-local names must not be read after the loop
      for n in ast.walk(ast.Module(body=list(rest), type_ignores=[])):
        if isinstance(n, ast.Name) and n.id == a:
          self.err(n, 'loop-local variable %s is used after the loop' % a)
    body = self.S(list(s.body), env + [x for x in kv if x not in env], lambda e: '  ' * (ind + 2) + self.var(c), ind + 2)
    return '%slet %s := py_for_items %s %s (fun %s %s %s =>\n%s) in\n%s' % (
        pad, self.var(c), self.var(src), self.var(c), self.var(c), self.var(kv[0]), self.var(kv[1]), body, self.S(rest, env, k, ind))

  def _scan_fresh(self, stmts):
    """locals that are assigned exactly once, from x.copy() / dict(x) / utils.merge / a fresh helper result"""
    self.fresh_copies = set()
    count = {}
    for n in ast.walk(ast.Module(body=list(stmts), type_ignores=[])):
      if isinstance(n, ast.Assign) and len(n.targets) == 1 and isinstance(n.targets[0], ast.Name):
        nm = n.targets[0].id
        count[nm] = count.get(nm, 0) + 1
        v = n.value
        if isinstance(v, ast.Call) and (
            (isinstance(v.func, ast.Attribute) and v.func.attr == 'copy') or
            (isinstance(v.func, ast.Name) and (v.func.id == 'dict' or v.func.id in self.fresh_fns))):
          self.fresh_copies.add(nm)
    # fresh when EVERY assignment to the name produces a new object
    nonfresh = set()
    for n in ast.walk(ast.Module(body=list(stmts), type_ignores=[])):
      if isinstance(n, ast.Assign) and len(n.targets) == 1 and isinstance(n.targets[0], ast.Name):
        v = n.value
        ok = (isinstance(v, ast.Call) and ((isinstance(v.func, ast.Attribute) and v.func.attr == 'copy') or
                                          (isinstance(v.func, ast.Name) and (v.func.id == 'dict' or v.func.id in self.fresh_fns)))) \
             or (isinstance(v, ast.Dict) and not v.keys)
        if not ok:
          nonfresh.add(n.targets[0].id)
    self.fresh_copies = {n for n in count if n not in nonfresh}
    for n in ast.walk(ast.Module(body=list(stmts), type_ignores=[])):
      if isinstance(n, ast.Assign) and len(n.targets) == 1 and isinstance(n.targets[0], ast.Name) and isinstance(n.value, ast.List) and not n.value.elts \
          and count.get(n.targets[0].id) == 1:
        self.pair_lists.add(n.targets[0].id)
    self.assign_count = dict(count)

  fresh_fns = ()
  phase = 'enter'
  touched = False
  assign_count = {}
  inlined_locals = set()

  # -- whole functions ---------------------------------------------------------------------------------
  def sig(self, with_saved=False):
    ps = []
    for p in self.params:
      if p in self.key_params:
        ps.append('(%s : tlkey)' % self.var(p))
      else:
        ps.append('(%s : val)' % self.var(p))
    return ' '.join(ps)

  def getter(self, coq_name):
    body = _strip_doc(self.fn.body)
    if not body or not isinstance(body[-1], ast.Return) or body[-1].value is None:
      self.err(self.fn, 'getter does not end in `return expr`')
    self._scan_fresh(body)
    self.phase, self.touched, self.inlined_locals = 'getter', False, set()
    ret = body[-1]
    env0 = [p for p in self.params if p not in self.key_params]
    early = None
    if len(body) >= 2 and isinstance(body[-2], ast.If) and len(body[-2].body) == 1 and isinstance(body[-2].body[0], ast.Return) \
        and body[-2].body[0].value is not None and not body[-2].orelse:
      early = body[-2]
      body = body[:-2] + [ret]
    def fin(env):
      if early is not None:
        return '  (if %s then %s else %s)' % (self.C(early.test, env), self.E(early.body[0].value, env), self.E(ret.value, env))
      return '  ' + self.E(ret.value, env)
    text = self.S(body[:-1], env0, fin, 1)
    stores = '(st : store) (gst : store)' if self.use_global else '(st : store)'
    return 'Definition %s %s %s : val :=\n%s.' % (coq_name, self.sig(False), stores, text)

  def manager(self, coq_name, enter_body, exit_body, exit_extra_params=()):
    """enter_body: statements up to the yield; exit_body: the finally block."""
    self._scan_fresh(list(enter_body) + list(exit_body))
    self.phase, self.touched, self.inlined_locals = 'enter', False, set()
    env0 = [p for p in self.params if p not in self.key_params] + list(self.self_attrs)
    saved_box = []
    exit_reads = {('self_' + n.attr) for n in ast.walk(ast.Module(body=list(exit_body), type_ignores=[]))
                  if isinstance(n, ast.Attribute) and isinstance(n.value, ast.Name) and n.value.id == 'self' and isinstance(n.ctx, ast.Load)}
    def k_enter(env):
      for a in self.self_attrs:
        if a in exit_reads and ('assigned!' + a) not in env:
          raise TranslationError('%s: on some path self.%s is not assigned before the yield, so leaving the scope uses the value a previous use of the '
                                 'same object left there' % (self.fn.name, a[5:]))
      env = [e for e in env if not e.startswith('assigned!')]
      saved = [e for e in env if e not in self.params or e in self.assigned]
      saved = [e for e in saved if e != 'self' and e not in self.inlined_locals]
      if saved_box and saved_box[0] != saved:
        raise TranslationError('%s: the set of live variables at `yield` differs between paths' % self.fn.name)
      if not saved_box:
        saved_box.append(saved)
      lst = '; '.join(self.var(e) for e in saved)
      return '  Some (st, gst, [%s])' % lst if self.use_global else '  Some (st, [%s])' % lst
    pre = ''.join('  let %s := %s in\n' % (self.var(a), v) for a, v in self.self_attrs.items())
    enter = self.S(enter_body, env0, k_enter, 1)
    if not saved_box:
      raise TranslationError('%s: no path reaches the yield' % self.fn.name)
    saved = saved_box[0]
    self.phase = 'exit'
    env1 = [p for p in self.params if p not in self.key_params and p not in saved] + saved + list(exit_extra_params)
    ex = self.S(exit_body, env1, lambda env: '    (st, gst)' if self.use_global else '    st', 2)
    sig = self.sig(True)
    out = []
    if self.use_global:
      out.append('Definition %s_enter %s (st : store) (gst : store) : option (store * store * list val) :=\n%s%s.' % (coq_name, sig, pre, enter))
      out.append('Definition %s_exit %s (saved : list val) (st : store) (gst : store) : store * store :=\n  match saved with\n  | [%s] =>\n%s\n  | _ => (st, gst)\n  end.'
                 % (coq_name, sig, '; '.join(self.var(e) for e in saved), ex))
    else:
      out.append('Definition %s_enter %s (st : store) : option (store * list val) :=\n%s%s.' % (coq_name, sig, pre, enter))
      out.append('Definition %s_exit %s (saved : list val) (st : store) : store :=\n  match saved with\n  | [%s] =>\n%s\n  | _ => st\n  end.'
                 % (coq_name, sig, '; '.join(self.var(e) for e in saved), ex))
    return '\n'.join(out), saved


def _split_cm(fn, who, allow_flag_handler=False):
  """[pre..., Try(body=[..., yield], finalbody=[...])] -> (enter statements, exit statements).
  With allow_flag_handler a handler `except Exception: <flag> = True; raise` is accepted: it only records that the
  body raised (the flag is False on the normal path, which is the value the exit block is translated with)."""
  if not _is_cm(fn):
    raise TranslationError('%s is not a @contextlib.contextmanager' % who)
  body = _strip_doc(fn.body)
  if not body or not isinstance(body[-1], ast.Try):
    raise TranslationError('%s: body does not end in try/finally' % who)
  t = body[-1]
  if t.orelse or not t.finalbody:
    raise TranslationError('%s: try has an else block or no finally' % who)
  if t.handlers:
    ok = (allow_flag_handler and len(t.handlers) == 1 and len(t.handlers[0].body) == 2
          and isinstance(t.handlers[0].body[0], ast.Assign) and isinstance(t.handlers[0].body[0].targets[0], ast.Name)
          and isinstance(t.handlers[0].body[0].value, ast.Constant) and t.handlers[0].body[0].value.value is True
          and isinstance(t.handlers[0].body[1], ast.Raise) and t.handlers[0].body[1].exc is None)
    if not ok:
      raise TranslationError('%s: unsupported exception handler (it could swallow the exception or change state)' % who)
    flag = t.handlers[0].body[0].targets[0].id
    # the flag may only guard user callbacks in the finally block
    for n in ast.walk(ast.Module(body=list(t.finalbody), type_ignores=[])):
      if isinstance(n, ast.If) and any(isinstance(m, ast.Name) and m.id == flag for m in ast.walk(n.test)):
        for st_ in list(n.body) + list(n.orelse):
          if not (isinstance(st_, ast.Expr) and isinstance(st_.value, ast.Call) and isinstance(st_.value.func, ast.Name)):
            raise TranslationError('%s: the exception flag guards more than a callback' % who)
  for s in body[:-1]:
    for n in ast.walk(s):
      if isinstance(n, (ast.Yield, ast.YieldFrom, ast.Try, ast.With, ast.While, ast.Return)):
        raise TranslationError('%s: unsupported control flow before try' % who)
  tb = list(t.body)
  if not tb or not (isinstance(tb[-1], ast.Expr) and isinstance(tb[-1].value, ast.Yield)):
    raise TranslationError('%s: the try block does not end in a single yield' % who)
  for s in tb[:-1] + list(t.finalbody):
    for n in ast.walk(s):
      if isinstance(n, (ast.Yield, ast.YieldFrom, ast.Try, ast.With, ast.For, ast.While, ast.Return, ast.Raise)):
        raise TranslationError('%s: unsupported control flow in try/finally' % who)
  return body[:-1] + tb[:-1], list(t.finalbody)


def _refs_thread_local(node):
  for n in ast.walk(node):
    if isinstance(n, ast.Name) and (n.id in PRIM_OWNERS or n.id.startswith('thread_local')):
      return True
    if isinstance(n, ast.Attribute) and n.attr.startswith('thread_local'):
      return True
  return False


def _single_key(fn, who):
  ks = sorted(set(fn.used_keys))
  if len(ks) != 1:
    raise TranslationError('%s uses %d thread-local keys %s, expected exactly one' % (who, len(ks), ks))
  return ks[0]


def _coq_string(s):
  return '[' + '; '.join(str(ord(c)) for c in s) + ']'


def translate(repo=None):
  repo = repo or REPO
  P = lambda rel: os.path.join(repo, 'pyglove/core', rel)
  keys = Keys()
  out = []
  info = {}

  # ---- thread_local.py ------------------------------------------------------------------------------
  tl = _parse(P('utils/thread_local.py'))
  fps = {}
  for name in ('thread_local_has', 'thread_local_set', 'thread_local_get', 'thread_local_del', 'thread_local_map',
               'thread_local_push', 'thread_local_peek', 'thread_local_pop'):
    fps[name] = fingerprint(_find_fn(tl, name))
    if PRIM_FINGERPRINTS.get(name) != fps[name]:
      raise TranslationError('thread_local.%s changed (fingerprint %s, modelled %s): ScopesBase.v models it by hand'
                             % (name, fps[name], PRIM_FINGERPRINTS.get(name)))
  state_decl = [n for n in tl.body if isinstance(n, ast.Assign) and ast.dump(n.targets[0]) == "Name(id='_thread_local_state', ctx=Store())"]
  if len(state_decl) != 1 or ast.dump(state_decl[0].value) != \
      "Call(func=Attribute(value=Name(id='threading', ctx=Load()), attr='local', ctx=Load()), args=[], keywords=[])":
    raise TranslationError('_thread_local_state is no longer a threading.local()')
  info['primitive_fingerprints'] = fps
  tl_consts = _module_consts(tl)

  # ---- flags.py: keys first so that flag keys get the first indices -------------------------------------
  fl = _parse(P('symbolic/flags.py'))
  fconsts = _module_consts(fl)
  scopes, getters = [], []
  for n in fl.body:
    if not isinstance(n, ast.FunctionDef):
      continue
    body = _strip_doc(n.body)
    if len(body) == 1 and isinstance(body[0], ast.Return) and isinstance(body[0].value, ast.Call):
      c = body[0].value
      fd = ast.dump(c.func)
      if fd == "Attribute(value=Name(id='thread_local', ctx=Load()), attr='thread_local_value_scope', ctx=Load())":
        if len(c.args) != 3 or c.keywords:
          raise TranslationError('flags.%s: thread_local_value_scope call shape' % n.name)
        k, v, init = c.args
        params = [a.arg for a in n.args.args]
        if not (isinstance(k, ast.Name) and k.id in fconsts):
          raise TranslationError('flags.%s: key is not a module string constant' % n.name)
        if not (isinstance(v, ast.Name) and params == [v.id]):
          raise TranslationError('flags.%s: value in scope is not the single parameter' % n.name)
        if not (isinstance(init, ast.Constant) and init.value in (None, True, False)):
          raise TranslationError('flags.%s: initial value is not None/True/False' % n.name)
        dflt = n.args.defaults[0].value if n.args.defaults and isinstance(n.args.defaults[0], ast.Constant) else 'required'
        scopes.append((n.name, fconsts[k.id], init.value, dflt))
        continue
      if fd == "Attribute(value=Name(id='thread_local', ctx=Load()), attr='thread_local_get', ctx=Load())":
        if len(c.args) != 2 or c.keywords or n.args.args:
          raise TranslationError('flags.%s: thread_local_get call shape' % n.name)
        k, d = c.args
        if not (isinstance(k, ast.Name) and k.id in fconsts and isinstance(d, ast.Constant) and d.value in (None, True, False)):
          raise TranslationError('flags.%s: getter key/default not recognised' % n.name)
        getters.append((n.name, fconsts[k.id], d.value))
        continue
    if _refs_thread_local(n):
      raise TranslationError('flags.%s touches thread-local state in an unrecognised way' % n.name)
  flags = []
  for name, key, init, dflt in scopes:
    g = [x for x in getters if x[1] == key]
    if len(g) != 1:
      raise TranslationError('flags.%s: %d getters read key %r' % (name, len(g), key))
    keys.add('tls', key)
    flags.append(dict(scope=name, getter=g[0][0], key=key, initial=init, getter_default=g[0][2], arg_default=dflt))
  for g in getters:
    if not any(f['key'] == g[1] for f in flags):
      raise TranslationError('flags.%s reads key %r that no scope sets' % (g[0], g[1]))
  info['flags'] = flags

  # ---- generic scopes of thread_local.py -------------------------------------------------------------------
  defs = []
  f = _find_fn(tl, 'thread_local_value_scope')
  en, ex = _split_cm(f, 'thread_local_value_scope')
  text, _ = Fn(f, tl_consts, keys, {}).manager('thread_local_value_scope', en, ex)
  defs.append('(* thread_local.py: thread_local_value_scope *)\n' + text)
  f = _find_fn(tl, 'thread_local_arg_scope')
  en, ex = _split_cm(f, 'thread_local_arg_scope')
  text, _ = Fn(f, tl_consts, keys, {}).manager('thread_local_arg_scope', en, ex)
  defs.append('(* thread_local.py: thread_local_arg_scope *)\n' + text)
  f = _find_fn(tl, 'thread_local_kwargs')
  defs.append('(* thread_local.py: thread_local_kwargs *)\n' + Fn(f, tl_consts, keys, {}).getter('thread_local_kwargs'))

  # ---- formatting.py ------------------------------------------------------------------------------------------
  fm = _parse(P('utils/formatting.py'))
  mconsts = _module_consts(fm)
  fmt = {}
  for name in ('str_format', 'repr_format'):
    fn = _find_fn(fm, name)
    body = _strip_doc(fn.body)
    ok = (len(body) == 1 and isinstance(body[0], ast.Return) and isinstance(body[0].value, ast.Call)
          and ast.dump(body[0].value.func) == "Attribute(value=Name(id='thread_local', ctx=Load()), attr='thread_local_arg_scope', ctx=Load())"
          and len(body[0].value.args) == 1 and isinstance(body[0].value.args[0], ast.Name) and body[0].value.args[0].id in mconsts
          and len(body[0].value.keywords) == 1 and body[0].value.keywords[0].arg is None
          and fn.args.kwarg is not None and ast.dump(body[0].value.keywords[0].value) == "Name(id='%s', ctx=Load())" % fn.args.kwarg.arg
          and not fn.args.args)
    if not ok:
      raise TranslationError('formatting.%s is not `return thread_local.thread_local_arg_scope(KEY, **kwargs)`' % name)
    fmt[name] = mconsts[body[0].value.args[0].id]
  # the readers (Formattable.__str__/__repr__) must read the same keys through thread_local_kwargs
  read = set()
  for n in ast.walk(fm):
    if isinstance(n, ast.Call) and ast.dump(n.func) == "Attribute(value=Name(id='thread_local', ctx=Load()), attr='thread_local_kwargs', ctx=Load())":
      if len(n.args) == 1 and isinstance(n.args[0], ast.Name) and n.args[0].id in mconsts:
        read.add(mconsts[n.args[0].id])
      else:
        raise TranslationError('formatting: unrecognised thread_local_kwargs call')
  if read != set(fmt.values()):
    raise TranslationError('formatting: keys written %s differ from keys read %s' % (sorted(fmt.values()), sorted(read)))
  for name in ('str_format', 'repr_format'):
    keys.add('tls', fmt[name])
  info['format_keys'] = fmt

  # ---- permissions.py -------------------------------------------------------------------------------------------------
  pm = _parse(P('coding/permissions.py'))
  pconsts = _module_consts(pm)
  f = _find_fn(pm, 'permission')
  en, ex = _split_cm(f, 'permission')
  pf = Fn(f, pconsts, keys, {})
  text, _ = pf.manager('permission', en, ex)
  aliases = {'k_permission': _single_key(pf, 'permission')}
  defs.append('(* permissions.py: permission *)\n' + text)
  defs.append('(* permissions.py: get_permission *)\n' + Fn(_find_fn(pm, 'get_permission'), pconsts, keys, {}).getter('get_permission'))

  # ---- execution.py ---------------------------------------------------------------------------------------------------
  exm = _parse(P('coding/execution.py'))
  econsts = _module_consts(exm)
  defs.append('(* execution.py: get_context *)\n' + Fn(_find_fn(exm, 'get_context'), econsts, keys, {}).getter('get_context'))
  f = _find_fn(exm, 'context')
  en, ex = _split_cm(f, 'context')
  c = Fn(f, econsts, keys, {'get_context': 'get_context'})
  c.fresh_fns = ('get_context',)      # get_context() returns a new dict (checked: its return expression is dict(...) or {})
  gc = _find_fn(exm, 'get_context')
  ret = _strip_doc(gc.body)[-1].value
  branches = [ret.body, ret.orelse] if isinstance(ret, ast.IfExp) else [ret]
  for b in branches:
    if not ((isinstance(b, ast.Call) and isinstance(b.func, ast.Name) and b.func.id == 'dict') or (isinstance(b, ast.Dict) and not b.keys)):
      raise TranslationError('get_context() may return an alias of the stack top')
  text, _ = c.manager('context', en, ex)
  aliases['k_context'] = _single_key(c, 'context')
  defs.append('(* execution.py: context *)\n' + text)

  # ---- views/base.py -----------------------------------------------------------------------------------------------------
  vw = _parse(P('views/base.py'))
  vconsts = _module_consts(vw)
  f = _find_fn(vw, 'view_options')
  en, ex = _split_cm(f, 'view_options')
  vf = Fn(f, vconsts, keys, {})
  text, _ = vf.manager('view_options', en, ex)
  aliases['k_view_options'] = _single_key(vf, 'view_options')
  defs.append('(* views/base.py: view_options *)\n' + text)
  info['view_options_key'] = vconsts.get('_TLS_KEY_VIEW_OPTIONS')

  # ---- timing.py ------------------------------------------------------------------------------------------------------------
  tm = _parse(P('utils/timing.py'))
  cls = [n for n in tm.body if isinstance(n, ast.ClassDef) and n.name == 'TimeIt']
  if len(cls) != 1:
    raise TranslationError('class TimeIt not found')
  init = _find_fn(tm, '__init__', 'TimeIt')
  attrs = {}
  for s in _strip_doc(init.body):
    t = s.target if isinstance(s, ast.AnnAssign) else (s.targets[0] if isinstance(s, ast.Assign) and len(s.targets) == 1 else None)
    if isinstance(t, ast.Attribute) and isinstance(t.value, ast.Name) and t.value.id == 'self' and isinstance(s.value, ast.Constant) and s.value.value is None:
      attrs['self_' + t.attr] = 'v_none'
  enter_fn = _find_fn(tm, '__enter__', 'TimeIt')
  exit_fn = _find_fn(tm, '__exit__', 'TimeIt')
  ebody = _strip_doc(enter_fn.body)
  if not (ebody and isinstance(ebody[-1], ast.Return) and ast.dump(ebody[-1].value) == "Name(id='self', ctx=Load())"):
    raise TranslationError('TimeIt.__enter__ does not end in `return self`')
  used = set()
  for n in list(ast.walk(enter_fn)) + list(ast.walk(exit_fn)):
    if isinstance(n, ast.Attribute) and isinstance(n.value, ast.Name) and n.value.id == 'self' and isinstance(n.ctx, (ast.Load, ast.Store)):
      used.add('self_' + n.attr)
  ignorable = set()
  for m in ('add', 'start', 'end'):
    if _refs_thread_local(_find_fn(tm, m, 'TimeIt')):
      raise TranslationError('TimeIt.%s touches thread-local state' % m)
    ignorable.add(m)
  if [a.arg for a in exit_fn.args.args] != ['self', 'exc_type', 'exc_value', 'traceback']:
    raise TranslationError('TimeIt.__exit__ signature')
  for n in ast.walk(exit_fn):
    if isinstance(n, ast.Return) and n.value is not None:
      raise TranslationError('TimeIt.__exit__ returns a value (may swallow exceptions)')
  tfn = Fn(enter_fn, _module_consts(tm), keys, {}, self_attrs={a: v for a, v in attrs.items() if a in used and a not in ignorable},
           ignorable_methods=ignorable)
  text, _ = tfn.manager('timeit', ebody[:-1], _strip_doc(exit_fn.body), exit_extra_params=('exc_type', 'exc_value', 'traceback'))
  defs.append('(* timing.py: TimeIt.__enter__ / __exit__ *)\n' + text)
  aliases['k_timing'] = _single_key(tfn, 'TimeIt')
  tf = _find_fn(tm, 'timeit')
  if ast.dump(_strip_doc(tf.body)[-1]) != "Return(value=Call(func=Name(id='TimeIt', ctx=Load()), args=[Name(id='name', ctx=Load())], keywords=[]))":
    raise TranslationError('timeit() no longer returns a new TimeIt(name)')

  # ---- keys of the hand-written managers ---------------------------------------------------------------------------------------
  cx = _parse(P('utils/contextual.py'))
  cc = _module_consts(cx)
  if '_TLS_KEY_CONTEXTUAL_OVERRIDES' not in cc:
    raise TranslationError('contextual: key constant not found')
  keys.add('contextual', cc['_TLS_KEY_CONTEXTUAL_OVERRIDES'], 'k_contextual')
  f = _find_fn(cx, 'contextual_scope')
  if [a.arg for a in f.args.args] != ['tls'] or f.args.kwarg is None:
    raise TranslationError('contextual_scope signature')
  en, ex = _split_cm(f, 'contextual_scope')
  text, _ = Fn(f, cc, keys, {}, tls_objects={'tls': 'contextual'}).manager('contextual_scope', en, ex)
  defs.append('(* contextual.py: contextual_scope (called with the module\'s threading.local) *)\n' + text)
  co = _find_fn(cx, 'contextual_override')
  if ast.dump(_strip_doc(co.body)[-1]) != ("Return(value=Call(func=Name(id='contextual_scope', ctx=Load()), args=[Name(id='_global_contextual_overrides', ctx=Load())], "
                                          "keywords=[keyword(value=Name(id='vs', ctx=Load()))]))"):
    raise TranslationError('contextual_override no longer returns contextual_scope(_global_contextual_overrides, **vs)')
  gs = _find_fn(cx, 'get_contextual_override')
  if ast.dump(_strip_doc(gs.body)[-1]) != ("Return(value=Call(func=Name(id='get_scoped_value', ctx=Load()), args=[Name(id='_global_contextual_overrides', ctx=Load()), "
                                          "Name(id='var_name', ctx=Load())], keywords=[]))"):
    raise TranslationError('get_contextual_override no longer reads _global_contextual_overrides')
  glob = [n for n in cx.body if isinstance(n, ast.Assign) and ast.dump(n.targets[0]) == "Name(id='_global_contextual_overrides', ctx=Store())"]
  if len(glob) != 1 or 'threading' not in ast.dump(glob[0].value) or 'local' not in ast.dump(glob[0].value):
    raise TranslationError('contextual: _global_contextual_overrides is no longer a threading.local()')
  dt = _parse(P('detouring/class_detour.py'))
  dcls = [n for n in dt.body if isinstance(n, ast.ClassDef) and n.name == '_DetourContext']
  if len(dcls) != 1:
    raise TranslationError('detour: _DetourContext not found')
  dconst = _module_consts(ast.Module(body=dcls[0].body, type_ignores=[]))
  if '_DETOUR_STACK_KEY' not in dconst:
    raise TranslationError('detour: stack key not found')
  dinit = _find_fn(dt, '__init__', '_DetourContext')
  if "Assign(targets=[Attribute(value=Name(id='self', ctx=Load()), attr='_tls', ctx=Store())], value=Call(func=Attribute(value=Name(id='threading', ctx=Load()), attr='local', ctx=Load()), args=[], keywords=[]))" \
      not in [ast.dump(s) for s in dinit.body]:
    raise TranslationError('detour: self._tls is no longer a threading.local()')
  keys.add('detour', dconst['_DETOUR_STACK_KEY'], 'k_detour')
  # class detouring: _DetourContext.current_mappings / enter_scope / leave_scope are translated; the lazily created list behind
  # `_detour_stack` and the shape of detour() are pinned by fingerprint
  kdet = keys.ident('detour', dconst['_DETOUR_STACK_KEY'])
  def det_fn(f):
    x = Fn(f, dconst, keys, {})
    x.params = [q for q in x.params if q != 'self']
    x.tls_list_attrs = {'_detour_stack': kdet}
    x.property_getters = {'current_mappings': 'current_mappings'}
    x.ignored_attrs = {'_original_new'}
    x.pair_lists = {'mappings'}
    return x
  defs.append('(* class_detour.py: _DetourContext.current_mappings *)\n' + det_fn(_find_fn(dt, 'current_mappings', '_DetourContext')).getter('current_mappings'))
  es = _find_fn(dt, 'enter_scope', '_DetourContext')
  ls = _find_fn(dt, 'leave_scope', '_DetourContext')
  if [a.arg for a in es.args.args] != ['self', 'mappings'] or [a.arg for a in ls.args.args] != ['self']:
    raise TranslationError('detour: enter_scope / leave_scope signature')
  eb = _strip_doc(es.body)
  if not (eb and isinstance(eb[-1], ast.Return) and isinstance(eb[-1].value, ast.Name)):
    raise TranslationError('detour: enter_scope does not end in `return <name>`')
  for n in ast.walk(ls):
    if isinstance(n, ast.Return):
      raise TranslationError('detour: leave_scope returns')
  efn = det_fn(es)
  text, _ = efn.manager('detour_scope', eb[:-1], _strip_doc(ls.body))
  defs.append('(* class_detour.py: _DetourContext.enter_scope / leave_scope (called by detour() around the yield) *)\n' + text)
  info['notes'] = list(info.get('notes', [])) + efn.notes
  dfp = {}
  for m in ('_detour_stack',):
    dfp[m] = fingerprint(_find_fn(dt, m, '_DetourContext'))
  dfp['detour'] = fingerprint(_find_fn(dt, 'detour'))
  info['hand_written_fingerprints'] = dfp
  changed = sorted(k for k in dfp if HAND_WRITTEN_FINGERPRINTS.get(k) != dfp[k])
  info['hand_written_changed'] = changed
  if changed:
    raise TranslationError('class_detour.%s changed (fingerprints %s): the translation of enter_scope / leave_scope relies on their shape'
                           % ('/'.join(changed), {k: dfp[k] for k in changed}))
  # pg.apply_wrappers is a detour from each wrapped class to its wrapper (Model/Scopes.v gives CApplyWrappers the detour semantics)
  cw = _parse(P('symbolic/class_wrapper.py'))
  aw = _find_fn(cw, 'apply_wrappers')
  if ast.dump(_strip_doc(aw.body)[-1]) != (
      "Return(value=Call(func=Attribute(value=Name(id='detouring', ctx=Load()), attr='detour', ctx=Load()), args=[ListComp(elt=Tuple(elts=["
      "Attribute(value=Name(id='c', ctx=Load()), attr='sym_wrapped_cls', ctx=Load()), Name(id='c', ctx=Load())], ctx=Load()), generators=["
      "comprehension(target=Name(id='c', ctx=Store()), iter=Name(id='wrapper_classes', ctx=Load()), ifs=[], is_async=0)])], keywords=[]))"):
    raise TranslationError('apply_wrappers no longer returns detouring.detour([(c.sym_wrapped_cls, c) for c in wrapper_classes])')
  hb = _parse(P('hyper/base.py'))
  hc = _module_consts(hb)
  if '_TLS_KEY_DYNAMIC_EVALUATE_FN' not in hc:
    raise TranslationError('hyper/base: dynamic evaluate key not found')
  kd = keys.add('tls', hc['_TLS_KEY_DYNAMIC_EVALUATE_FN'])
  info['dyn_key'] = hc['_TLS_KEY_DYNAMIC_EVALUATE_FN']

  # ---- hyper/base.py + hyper/dynamic_evaluation.py: dynamic_evaluate (thread-local key + one module-level variable) ----
  gvar = [n for n in hb.body if isinstance(n, ast.Assign) and ast.dump(n.targets[0]) == "Name(id='_global_dynamic_evaluate_fn', ctx=Store())"]
  if len(gvar) != 1 or not (isinstance(gvar[0].value, ast.Constant) and gvar[0].value.value is None):
    raise TranslationError('hyper/base: _global_dynamic_evaluate_fn is not a module-level variable initialised to None')
  ext_base = dict(consts=hc, globals={'_global_dynamic_evaluate_fn': 'g_dynamic_evaluate'},
                  procs={'set_dynamic_evaluate_fn': _find_fn(hb, 'set_dynamic_evaluate_fn')}, tree=hb)
  gfn = Fn(_find_fn(hb, 'get_dynamic_evaluate_fn'), hc, keys, {})
  gfn.use_global = True
  gfn.global_vars = dict(ext_base['globals'])
  defs.append('(* hyper/base.py: get_dynamic_evaluate_fn *)\n' + gfn.getter('get_dynamic_evaluate_fn'))
  de = _parse(P('hyper/dynamic_evaluation.py'))
  f = _find_fn(de, 'dynamic_evaluate')
  if [a.arg for a in f.args.args] != ['evaluate_fn', 'yield_value', 'exit_fn', 'per_thread']:
    raise TranslationError('dynamic_evaluate signature')
  if ast.dump(f.args.defaults[-1]) != 'Constant(value=True)':
    raise TranslationError('dynamic_evaluate: per_thread no longer defaults to True')
  en, ex = _split_cm(f, 'dynamic_evaluate', allow_flag_handler=True)
  dfn = Fn(f, _module_consts(de), keys, {})
  dfn.use_global = True
  dfn.extern = {'base': ext_base}
  text, _ = dfn.manager('dynamic_evaluate', en, ex)
  defs.append('(* hyper/dynamic_evaluation.py: dynamic_evaluate, with base.set_dynamic_evaluate_fn inlined *)\n' + text)
  if sorted(set(dfn.used_keys)) != [hc['_TLS_KEY_DYNAMIC_EVALUATE_FN']]:
    raise TranslationError('dynamic_evaluate uses thread-local keys %s' % sorted(set(dfn.used_keys)))
  info['notes'] = list(dfn.notes)

  # ---- hyper/dynamic_evaluation.py: DynamicEvaluationContext.collect / apply = a mixing guard + dynamic_evaluate + a stack of contexts.
  # Model/Scopes.v composes them from CDynGuard, CDynEval[Global] and CDynStackL/G; the source of the wrappers is pinned by fingerprint.
  scls = [n for n in de.body if isinstance(n, ast.ClassDef) and n.name == '_DynamicEvaluationStack']
  if len(scls) != 1:
    raise TranslationError('_DynamicEvaluationStack not found')
  sconst = _module_consts(ast.Module(body=scls[0].body, type_ignores=[]))
  if '_TLS_KEY' not in sconst:
    raise TranslationError('_DynamicEvaluationStack._TLS_KEY not found')
  keys.add('tls', sconst['_TLS_KEY'], 'k_dynstack')
  info['dynstack_key'] = sconst['_TLS_KEY']
  cfp = {}
  for m in ('ensure_thread_safety', '_local_stack', 'push', 'pop', '__init__'):
    cfp['_DynamicEvaluationStack.' + m] = fingerprint(_find_fn(de, m, '_DynamicEvaluationStack'))
  for m in ('collect', 'apply'):
    cfp['DynamicEvaluationContext.' + m] = fingerprint(_find_fn(de, m, 'DynamicEvaluationContext'))
  info['context_fingerprints'] = cfp
  changed = sorted(k for k in cfp if CONTEXT_FINGERPRINTS.get(k) != cfp[k])
  if changed:
    raise TranslationError('dynamic_evaluation.%s changed (fingerprints %s): Model/Scopes.v composes collect/apply by hand'
                           % ('/'.join(changed), {k: cfp[k] for k in changed}))

  # ---- utils/json_conversion.py: _TypeRegistry.load_types_for_deserialization (one process-wide stack) ---------------------
  jc = _parse(P('utils/json_conversion.py'))
  f = _find_fn(jc, 'load_types_for_deserialization', '_TypeRegistry')
  if [a.arg for a in f.args.args] != ['self'] or f.args.vararg is None:
    raise TranslationError('load_types_for_deserialization signature')
  rinit = _find_fn(jc, '__init__', '_TypeRegistry')
  if "Assign(targets=[Attribute(value=Name(id='self', ctx=Load()), attr='_ondemand_registry_stack', ctx=Store())], value=List(elts=[], ctx=Load()))" \
      not in [ast.dump(x) for x in rinit.body]:
    raise TranslationError('_TypeRegistry._ondemand_registry_stack is not initialised to []')
  reg = [n for n in ast.walk(jc) if isinstance(n, ast.Assign) and ast.dump(n.targets[0]) == "Name(id='_TYPE_REGISTRY', ctx=Store())"]
  if len(reg) != 1 or ast.dump(reg[0].value) != "Call(func=Name(id='_TypeRegistry', ctx=Load()), args=[], keywords=[])":
    raise TranslationError('JSONConvertible._TYPE_REGISTRY is no longer one class-level _TypeRegistry()')
  en, ex = _split_cm(f, 'load_types_for_deserialization')
  lfn = Fn(f, _module_consts(jc), keys, {})
  lfn.params = [x for x in lfn.params if x != 'self']
  lfn.use_global = True
  lfn.global_attrs = {'_ondemand_registry_stack': 'g_ondemand_types'}
  va = f.args.vararg.arg
  lfn.vararg_dict = (va, "DictComp(key=Attribute(value=Name(id='t', ctx=Load()), attr='__name__', ctx=Load()), value=Name(id='t', ctx=Load()), "
                         "generators=[comprehension(target=Name(id='t', ctx=Store()), iter=Name(id='%s', ctx=Load()), ifs=[], is_async=0)])" % va)
  text, _ = lfn.manager('load_types', en, ex)
  defs.append('(* json_conversion.py: _TypeRegistry.load_types_for_deserialization; the argument is the dict {t.__name__: t for t in types} *)\n' + text)
  if lfn.used_keys:
    raise TranslationError('load_types_for_deserialization touches thread-local keys')

  # ---- emit ----------------------------------------------------------------------------------------------------------------------
  out.append('(* GENERATED by harness/translators/scope_defs.py from pyglove/core/{utils/thread_local,symbolic/flags,utils/formatting,')
  out.append('   coding/permissions,coding/execution,views/base,utils/timing,utils/contextual,detouring/class_detour,hyper/base}.py.')
  out.append('   Do not edit: rewritten by every run of ./check C17 when the source changes. *)')
  out.append('From Coq Require Import ZArith List Bool.')
  out.append('Import ListNotations.')
  out.append('From PG Require Import Model.ScopesBase.')
  out.append('')
  out.append('(* thread-local keys: index in the per-thread store; (namespace, name) must be pairwise distinct *)')
  out.append('Definition nkeys : nat := %d.' % len(keys.items))
  nsid = {'tls': 0, 'contextual': 1, 'detour': 2}
  for i, (ns, s, ident) in enumerate(keys.items):
    out.append('Definition %s : tlkey := %d. (* %s:%s *)' % (ident, i, ns, s.replace('*)', '* )')))
  out.append('Definition key_names : list (nat * list nat) :=')
  out.append('  [' + ';\n   '.join('(%d, %s)' % (nsid[ns], _coq_string(s)) for ns, s, _ in keys.items) + '].')
  out.append('Definition k_dynamic_evaluate : tlkey := %s.' % keys.items[kd][2])
  out.append('(* the process-wide store: hyper/base.py _global_dynamic_evaluate_fn, json_conversion.py _TypeRegistry._ondemand_registry_stack *)')
  out.append('Definition g_dynamic_evaluate : tlkey := 0.')
  out.append('Definition g_ondemand_types : tlkey := 1.')
  out.append('Definition g_dynstack : tlkey := 2.   (* dynamic_evaluation.py _DynamicEvaluationStack._global_stack *)')
  out.append('Definition nglob : nat := 3.')
  out.append('Definition k_str_format : tlkey := %s.' % keys.ident('tls', fmt['str_format']))
  out.append('Definition k_repr_format : tlkey := %s.' % keys.ident('tls', fmt['repr_format']))
  for a in sorted(aliases):
    out.append('Definition %s : tlkey := %s.' % (a, keys.ident('tls', aliases[a])))
  info['aliases'] = aliases
  out.append('')
  cv = {None: 'v_none', True: 'v_true', False: 'v_false'}
  out.append('(* flags.py: every `return thread_local.thread_local_value_scope(KEY, arg, INITIAL)` and the getter of the same key *)')
  out.append('Definition flag_scopes : list (tlkey * val) :=')
  out.append('  [' + ';\n   '.join('(%s, %s) (* %s *)' % (keys.ident('tls', f['key']), cv[f['initial']], f['scope']) for f in flags) + '].')
  out.append('Definition flag_getters : list (tlkey * val) :=')
  out.append('  [' + ';\n   '.join('(%s, %s) (* %s *)' % (keys.ident('tls', f['key']), cv[f['getter_default']], f['getter']) for f in flags) + '].')
  names = [f['scope'] for f in flags]
  extra = len(flags)
  for nm in names:
    out.append('Definition i_%s : nat := %d.' % (nm, names.index(nm)))
  for nm in SPEC_FLAGS:
    if nm not in names:
      out.append('Definition i_%s : nat := %d. (* absent from the source *)' % (nm, extra))
      extra += 1
  out.append('')
  out.append('\n\n'.join(defs))
  out.append('')
  info['keys'] = [(ns, s, ident) for ns, s, ident in keys.items]
  return '\n'.join(out), info


if __name__ == '__main__':
  import sys
  if len(sys.argv) > 1 and sys.argv[1] == '--fingerprints':
    tl = _parse(os.path.join(REPO, 'pyglove/core/utils/thread_local.py'))
    for name in ('thread_local_has', 'thread_local_set', 'thread_local_get', 'thread_local_del', 'thread_local_map',
                 'thread_local_push', 'thread_local_peek', 'thread_local_pop'):
      print("    '%s': '%s'," % (name, fingerprint(_find_fn(tl, name))))
  else:
    text, info = translate()
    print(text)

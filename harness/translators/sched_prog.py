"""sched_prog.py — fail-closed translator: the concurrency skeleton of the in-memory tuning backend -> coq/Gen/SchedProg.v.

Reads (with `ast`, never importing pyglove)
    pyglove/core/tuning/local_backend.py   _InMemoryFeedback / _InMemoryResult / _InMemoryBackend
    pyglove/core/geno/dna_generator.py     DNAGenerator.setup / propose / feedback (the counters)
    pyglove/ext/evolution/base.py          Evolution._setup / _propose / _feedback (+ footprint of _evolve)
    pyglove/core/tuning/sample.py          (shape check only: the loop is `backend.next()` until StopIteration)
and emits one flat program per API entry (constructor, next, _add_measurement, done, skip, should_stop_early,
end_loop) in the act language of coq/Model/Sched.v, every call to a function of these files inlined.

  * `with <lock>:`      -> Acquire l ... Release l   (Release also before every return / raise that leaves the block)
  * a simple statement  -> Stmt reads writes effect.  reads/writes are computed GENERICALLY from the AST (which shared
                           attribute is loaded / stored / mutated, through a small table of attribute kinds); the effect
                           is looked up by (function, statement text).  A statement that touches shared state and has no
                           table entry, any unknown attribute, name, call or statement shape stops the translation.
  * `if`                -> Branch reads cond skip (cond looked up by (function, test text))
  * return / raise      -> releases, then Jump to the end of the inlined function / Throw
The Coq side re-checks that the generic reads/writes equal the declared footprint of the named effect
(Proofs/SchedInstance.v), so a wrong table entry is not silently accepted.

Also returns the line -> act map used by the scheduler to turn an observed (thread, file, line) trace into a schedule.
"""
import ast, os
from harness.lib.common import REPO

SRC = dict(lb='pyglove/core/tuning/local_backend.py', dg='pyglove/core/geno/dna_generator.py',
           evo='pyglove/ext/evolution/base.py', sample='pyglove/core/tuning/sample.py')

class Untranslatable(Exception):
  pass

def bad(msg, node=None, qual=None):
  where = ''
  if node is not None and hasattr(node, 'lineno'):
    where = ' [%s line %d: %s]' % (qual or '', node.lineno, ast.unparse(node)[:90])
  raise Untranslatable(msg + where)

# ---------------------------------------------------------------------------------------------------
# functions: short class tag -> (file key, class name)
CLASSES = dict(fb=('lb', '_InMemoryFeedback'), res=('lb', '_InMemoryResult'), be=('lb', '_InMemoryBackend'),
               alg=('dg', 'DNAGenerator'), evo=('evo', 'Evolution'))

# the entries, in the order fixed by Model/Sched.v (P_init .. P_end)
ENTRIES = ['be.__init__', 'be.next', 'fb._add_measurement', 'fb.done', 'fb.skip', 'fb.should_stop_early', 'fb.end_loop']

# kinds of the local names of every translated function (a name used as the base of an attribute access or passed
# to a recognised helper must be listed)
ENV = {
  'be.__init__': dict(self='be', algorithm='alg', early_stopping_policy='pol', study='res'),
  'be.next': dict(self='be', trial='trial', next_dna='fn'),
  'be.next.next_dna': dict(self='be'),
  'be._feedback': dict(self='be', trial='trial', dna='dna'),
  'be._should_stop_early': dict(self='be', trial='trial'),
  'fb._add_measurement': dict(self='fb'), 'fb.done': dict(self='fb'), 'fb.skip': dict(self='fb'),
  'fb.should_stop_early': dict(self='fb'), 'fb.end_loop': dict(self='fb'),
  'res.create_trial': dict(self='res', trial='trial', dna_fn='fn'),
  'res._mark_completed': dict(self='res', trial='trial'),
  'res._complete_trial': dict(self='res', trial='trial', best='trial'),
  'res._set_active': dict(self='res'),
  'alg.setup': dict(self='alg'), 'alg.propose': dict(self='alg', dna='dna'), 'alg.feedback': dict(self='alg', dna='dna'),
  'alg._normalized_reward': dict(self='alg'),
  'evo._setup': dict(self='evo'), 'evo._propose': dict(self='evo', dna='dna'), 'evo._feedback': dict(self='evo', dna='dna'),
  'evo._evolve': dict(self='evo', child='dna', children='val'),
}

# (kind, attribute) -> (kind of the result, shared variable read by loading it / written by storing it)
FIELDS = {
  ('fb', '_trial'): ('trial', None), ('fb', '_study'): ('res', None), ('fb', '_feedback_fn'): ('fn', None),
  ('fb', '_should_stop_early_fn'): ('fn', None), ('fb', 'id'): ('val', None), ('fb', 'dna'): ('dna', None),
  ('trial', 'status'): ('val', 'VTStatus'), ('trial', 'infeasible'): ('val', 'VTInf'), ('trial', 'final_measurement'): ('meas', 'VTFinal'),
  ('trial', 'measurements'): ('box', 'VTMeas'), ('trial', 'metadata'): ('box', 'VTMeta'), ('trial', 'id'): ('val', None), ('trial', 'dna'): ('dna', None),
  ('meas', 'reward'): ('val', None),
  ('res', '_trials'): ('box', 'VTrials'), ('res', '_num_trials_by_status'): ('cnt', None), ('res', '_num_infeasible'): ('val', 'VCntInf'),
  ('res', '_best_trial'): ('trial', 'VBest'), ('res', '_latest_trial_per_group'): ('box', 'VLatest'), ('res', '_is_active'): ('val', 'VActive'),
  ('res', '_last_update_time'): ('val', 'VLastUpdate'), ('res', '_max_num_trials'): ('val', None), ('res', '_lock'): ('lock', None),
  ('res', 'is_active'): ('val', 'VActive'),
  ('be', '_study'): ('res', None), ('be', '_group_id'): ('val', None), ('be', '_algorithm'): ('alg', None), ('be', '_early_stopping_policy'): ('pol', None),
  ('be', '_metrics_to_optimize'): ('val', None), ('be', '_dna_spec'): ('val', None), ('be', '_num_examples'): ('val', None),
  ('alg', '_dna_spec'): ('val', 'VASpec'), ('alg', 'dna_spec'): ('val', 'VASpec'), ('alg', '_num_proposals'): ('val', 'VANumProp'),
  ('alg', '_num_feedbacks'): ('val', 'VANumFeed'), ('alg', 'num_proposals'): ('val', 'VANumProp'), ('alg', 'num_feedbacks'): ('val', 'VANumFeed'),
  ('alg', 'multi_objective'): ('val', None), ('alg', 'needs_feedback'): ('val', None),
  ('evo', '_pending_proposals'): ('box', 'VEPending'), ('evo', '_population_initialized'): ('val', 'VEInit'), ('evo', '_population'): ('box', 'VEPop'),
  ('evo', '_global_state'): ('gs', 'VEGen'), ('gs', 'num_generations'): ('val', None), ('evo', 'num_generations'): ('val', 'VEGen'),
  ('evo', '_init_population_generator'): ('ig', 'VEConf'), ('evo', '_init_population_size'): ('val', 'VEConf'),
  ('evo', '_reproduction'): ('op', 'VEConf'), ('evo', '_population_update'): ('op', 'VEConf'),
  ('evo', 'population_init'): ('val', None), ('evo', 'reproduction'): ('val', None), ('evo', 'population_update'): ('val', None),
  ('evo', '_lock'): ('lock', 'VELock'),
  ('pol', 'dna_spec'): ('val', None),
}
for (k, a), v in list(FIELDS.items()):
  if k == 'alg':
    FIELDS[('evo', a)] = v

# methods: (kind of receiver, name) -> ('inline', qual) | ('virtual', name) | ('opaque', reads, writes) | ('mut', ) | ('get', )
METHODS = {
  ('res', 'create_trial'): ('inline', 'res.create_trial'), ('res', '_mark_completed'): ('inline', 'res._mark_completed'),
  ('res', '_complete_trial'): ('inline', 'res._complete_trial'), ('res', '_set_active'): ('inline', 'res._set_active'),
  ('res', 'get_latest_trial'): ('opaque', ['VLatest'], []), ('res', 'next_trial_id'): ('opaque', ['VTrials'], []),
  ('alg', 'setup'): ('inline', 'alg.setup'), ('alg', 'propose'): ('inline', 'alg.propose'), ('alg', 'feedback'): ('inline', 'alg.feedback'),
  ('alg', '_normalized_reward'): ('inline', 'alg._normalized_reward'),
  ('alg', '_setup'): ('virtual', '_setup'), ('alg', '_propose'): ('virtual', '_propose'), ('alg', '_feedback'): ('virtual', '_feedback'),
  ('trial', 'get_reward_for_feedback'): ('opaque', ['VTStatus', 'VTInf', 'VTFinal'], []),
  ('pol', 'setup'): ('opaque', [], []), ('pol', 'should_stop_early'): ('opaque', [], []),
  ('ig', 'setup'): ('opaque', ['VEInitGen'], ['VEInitGen']), ('ig', 'propose'): ('opaque', ['VEInitGen'], ['VEInitGen']),
  ('ig', 'feedback'): ('opaque', ['VEInitGen'], ['VEInitGen']),
  ('evo', '_evolve'): ('summary', 'evo._evolve'),
  ('be', '_create_feedback'): ('opaque', [], []), ('dna', 'clone'): ('opaque', ['VDna'], []),
  ('box', 'append'): ('mut',), ('box', 'extend'): ('mut',), ('box', 'popleft'): ('mut',), ('box', 'update'): ('mut',), ('box', 'get'): ('get',),
}
# calls through a stored function / closure
FN_CALLS = {('fb', '_feedback_fn'): 'be._feedback', ('fb', '_should_stop_early_fn'): 'be._should_stop_early',
            ('res.create_trial', 'dna_fn'): 'be.next.next_dna'}
# plain functions that only touch their DNA argument
DNA_WRITERS = {'set_proposal_id', 'set_generation_id', '_set_initial_population', 'set_feedback_sequence_number', 'set_fitness'}
DNA_READERS = {'is_initial_population', 'get_fitness', 'get_feedback_sequence_number'}
# names that may be called / mentioned without touching modelled state
PLAIN = {'id', 'len', 'int', 'str', 'dict', 'list', 'set', 'bool', 'range', 'zip', 'min', 'max', 'sorted', 'isinstance', 'float', 'tuple', 'super', 'enumerate', 'Trial', 'Measurement', 'RaceConditionError', 'ValueError',
         'StopIteration', 'time', 'datetime', 'logging', 'pg', 'symbolic', 'threading', 'collections', 'make_operation_compatible', '_InMemoryResult',
         'None', 'True', 'False'}
GLOBAL_VARS = {'_in_memory_results': ('box', 'VRegistry')}

ENV_DECLARED = set(ENV)

LOCKS = {('res', 'self._lock'): 'LStudy', ('evo', 'self._lock'): 'LAlgo', ('be', '_in_memory_lock'): 'LReg'}
EXNS = {'StopIteration': 'XStop', 'RaceConditionError': 'XRace', 'ValueError': 'XValue'}

# (function, test text) -> condition   (a leading '!' on the callee means: the test is a call that is inlined first)
CONDS = {
  ('fb._add_measurement', "self._trial.status != 'PENDING'"): 'CCurNotPending',
  ('fb.done', "self._trial.status == 'PENDING'"): 'CCurPending',
  ('fb.done', 'not self._trial.measurements'): 'CNoMeas',
  ('fb.done', 'not self._study._mark_completed(self._trial)'): 'CRetFalse',
  ('fb.skip', 'self._study._mark_completed(self._trial)'): 'CRetTrue',
  ('fb.skip', "self._trial.status == 'PENDING'"): 'CCurPending',
  ('fb.should_stop_early', 'not self._trial.measurements'): 'CNoMeas',
  ('res.create_trial', "trial is not None and trial.status == 'PENDING'"): 'CTrialPending',
  ('res.create_trial', 'self._max_num_trials is not None and self.next_trial_id() > self._max_num_trials'): 'CFull',
  ('res._mark_completed', "trial.status != 'PENDING'"): 'CCurNotPending',
  ('res._complete_trial', 'trial.infeasible'): 'CInfeasible',
  ('res._complete_trial', 'best is None or (trial.final_measurement.reward is not None and best.final_measurement.reward < trial.final_measurement.reward)'): 'CBestBetter',
  ('be.__init__', 'name is None or name not in _in_memory_results'): 'CRegMissing',
  ('be.__init__', 'name is not None'): 'CConst true',
  ('be.__init__', 'group is None'): 'CFlag FGroupNone',
  ('be.__init__', 'not algorithm.multi_objective and len(metrics_to_optimize) > 1'): 'CConst false',
  ('be.__init__', 'algorithm.dna_spec is None'): 'CSpecNone',
  ('be.__init__', 'symbolic.ne(algorithm.dna_spec, dna_spec)'): 'CSpecDiffers',
  ('be.__init__', 'early_stopping_policy'): 'CFlag FHasPolicy',
  ('be.__init__', 'early_stopping_policy.dna_spec is None'): 'CConst true',
  ('be.__init__', 'early_stopping_policy.dna_spec != dna_spec'): 'CConst false',
  ('be.__init__', 'kwargs'): 'CConst false',
  ('be._feedback', 'reward is not None'): 'CRewardSome',
  ('be._should_stop_early', 'self._early_stopping_policy is not None'): 'CFlag FHasPolicy',
  ('be.next', 'not self._study.is_active'): 'CActiveNot',
  ('be.next', "trial is None or trial.status != 'PENDING'"): 'CTrialNoneOrDone',
  ('alg.feedback', 'self.needs_feedback'): 'CFlag FNeedsFb',
  ('alg.feedback', 'self.multi_objective and isinstance(reward, float)'): 'CConst false',
  ('alg.feedback', 'not self.multi_objective and isinstance(reward, tuple)'): 'CConst false',
  ('alg.feedback', 'len(reward) != 1'): 'CConst false',
  ('alg._normalized_reward', 'self.multi_objective and isinstance(reward, float)'): 'CConst false',
  ('alg._normalized_reward', 'not self.multi_objective and isinstance(reward, tuple)'): 'CConst false',
  ('alg._normalized_reward', 'len(reward) != 1'): 'CConst false',
  ('evo._setup', 'isinstance(self.population_init, tuple)'): 'CConst true',
  ('evo._propose', 'not self._pending_proposals'): 'CPendEmpty',
  ('evo._propose', 'self._population_initialized'): 'CPopInit',
  ('evo._feedback', 'is_initial_population(dna)'): 'CDnaInitial',
  ('evo._feedback', 'not self._population_initialized and self._init_population_size is not None and (self.num_feedbacks >= self._init_population_size - 1)'): 'CPopInitReached',
  ('evo._feedback', 'self._population_update'): 'CHasPopUpdate',
}

# (function, statement text) -> effect     (statements without shared footprint and without inlined call need no entry: ENop)
EFFECTS = {
  ('fb._add_measurement', 'self._trial.measurements.append(Measurement(step=step, reward=reward, metrics=metrics, checkpoint_path=checkpoint_path, elapse_secs=elapse_secs))'): 'EAddMeas',
  ('fb.done', "self._trial.status = 'COMPLETED'"): 'ESetCompleted',
  ('fb.done', 'self._trial.final_measurement = self._trial.measurements[-1]'): 'ESetFinalLast',
  ('fb.done', 'self._feedback_fn(self.dna, self._trial)'): 'ELoadDna',
  ('fb.done', 'self._trial.metadata.update(metadata or {})'): 'EMetaUpdate',
  ('fb.skip', "self._trial.status = 'COMPLETED'"): 'ESetCompleted',
  ('fb.skip', 'self._trial.infeasible = True'): 'ESetInf',
  ('fb.skip', 'self._trial.final_measurement = Measurement(reward=0.0, step=0, elapse_secs=0.0)'): 'ESetFinalZero',
  ('res._set_active', 'self._is_active = active'): 'ESetActive false',
  ('res.create_trial', 'trial = self._latest_trial_per_group.get(group_id, None)'): 'EGetLatest',
  ('res.create_trial', "trial = Trial(id=self.next_trial_id(), dna=dna_fn(), status='PENDING', created_time=int(time.time()), metadata=dict())"): 'EReadId',
  ('res.create_trial', 'self._trials.append(trial)'): 'EAppend',
  ('res.create_trial', "self._num_trials_by_status['PENDING'] += 1"): 'EIncPend',
  ('res.create_trial', 'self._latest_trial_per_group[group_id] = trial'): 'ESetLatest',
  ('res._mark_completed', "trial.status = 'COMPLETED'"): 'ESetCompleted',
  ('res._mark_completed', 'return False'): 'ESetRet false',
  ('res._mark_completed', 'return True'): 'ESetRet true',
  ('res._complete_trial', "self._num_trials_by_status['COMPLETED'] += 1"): 'EIncComp',
  ('res._complete_trial', "self._num_trials_by_status['PENDING'] -= 1"): 'EDecPend',
  ('res._complete_trial', 'self._num_infeasible += 1'): 'EIncInf',
  ('res._complete_trial', 'best = self._best_trial'): 'EReadBest',
  ('res._complete_trial', 'self._best_trial = trial'): 'ESetBest',
  ('res._complete_trial', 'self._last_update_time = datetime.datetime.now(tz=datetime.timezone.utc)'): 'ETouch',
  ('be.__init__', 'study = _InMemoryResult(name, num_examples)'): 'ENewStudy',
  ('be.__init__', '_in_memory_results[name] = study'): 'ERegister',
  ('be.__init__', 'study = _in_memory_results[name]'): 'ELookup',
  ('be._feedback', 'reward = trial.get_reward_for_feedback(self._metrics_to_optimize)'): 'EComputeReward',
  ('be._should_stop_early', 'assert trial.measurements'): 'ERead',
  ('be._should_stop_early', 'return self._early_stopping_policy.should_stop_early(trial)'): 'EPolicy',
  ('be._should_stop_early', 'return False'): 'ESetRet false',
  ('fb.should_stop_early', 'return False'): 'ESetRet false',
  ('be.next', 'trial = self._study.get_latest_trial(self._group_id)'): 'EGetLatest',
  ('be.next', 'return self._create_feedback(self._study, trial)'): 'ESetCur',
  ('alg.setup', 'self._dna_spec = dna_spec'): 'ESetSpec',
  ('alg.setup', 'self._num_proposals = 0'): 'EResetNP',
  ('alg.setup', 'self._num_feedbacks = 0'): 'EResetNF',
  ('alg.propose', 'self._num_proposals += 1'): 'EIncNP',
  ('alg.feedback', 'self._num_feedbacks += 1'): 'EIncNF',
  ('evo._setup', 'self._init_population_generator, self._init_population_size = self.population_init'): 'EEvoConf',
  ('evo._setup', 'self._init_population_generator.setup(self.dna_spec)'): 'EInitGenSetup',
  ('evo._setup', 'self._reproduction = make_operation_compatible(self.reproduction)'): 'EEvoConf',
  ('evo._setup', 'self._population_update = make_operation_compatible(self.population_update)'): 'EEvoConf',
  ('evo._setup', 'self._init_population_generator = self.population_init'): 'EEvoConf',
  ('evo._setup', 'self._init_population_size = None'): 'EEvoConf',
  ('evo._setup', 'self._global_state = pg.geno.AttributeDict(num_generations=0)'): 'EResetGen',
  ('evo._setup', 'self._population_initialized = False'): 'ESetPopInit false',
  ('evo._setup', 'self._population = []'): 'EResetPop',
  ('evo._setup', 'self._pending_proposals = collections.deque()'): 'EResetPending',
  ('evo._setup', 'self._lock = threading.Lock()'): 'ENewAlgoLock',
  ('evo._propose', 'self._pending_proposals.extend(self._evolve())'): 'EExtendEvolve',
  ('evo._propose', 'dna = self._init_population_generator.propose()'): 'EInitGenPropose',
  ('evo._propose', 'set_proposal_id(dna, self.num_proposals + 1)'): 'ESetPid',
  ('evo._propose', 'set_generation_id(dna, self.num_generations + 1)'): 'EGenId',
  ('evo._propose', '_set_initial_population(dna, True)'): 'ESetInitial true',
  ('evo._propose', 'self._pending_proposals.append(dna)'): 'EPendAppend',
  ('evo._propose', 'self._population_initialized = True'): 'ESetPopInit true',
  ('evo._propose', 'self._global_state.num_generations = 1'): 'ESetGen1',
  ('evo._propose', 'return self._pending_proposals.popleft()'): 'EPopLeft',
  ('evo._feedback', 'set_feedback_sequence_number(dna, self._num_feedbacks + 1)'): 'EFeedbackSeq',
  ('evo._feedback', 'set_fitness(dna, reward)'): 'ESetFitness',
  ('evo._feedback', 'assert get_fitness(dna) is not None'): 'ERead',
  ('evo._feedback', 'self._init_population_generator.feedback(dna, reward)'): 'EInitGenFeedback',
  ('evo._feedback', 'self._population_initialized = True'): 'ESetPopInit true',
  ('evo._feedback', 'self._global_state.num_generations = 1'): 'ESetGen1',
  ('evo._feedback', 'self._population.append(dna)'): 'EPopAppend',
  ('evo._feedback', 'self._population = self._population_update(self._population, global_state=self._global_state, step=self.num_feedbacks)'): 'EPopUpdate',
}
# statements recognised by a prefix of their text (log messages whose wording is irrelevant)
EFFECT_PREFIXES = [
  ('be.__init__', "raise ValueError(f'{algorithm!r} has been set up with a different DNASpec.", 'ERead'),
  ('evo._propose', "pg.logging.info(f'Evolution finishes population initialization", 'ERead'),
  ('evo._feedback', "pg.logging.info(f'Evolution finishes population initialization", 'ERead'),
]
# what the non-Evolution algorithms of the harness do for the three virtual methods (code outside the anchored files)
VIRTUAL_OTHER = {'_setup': None, '_propose': 'ERandPropose', '_feedback': 'EUserFeedback'}

# ---------------------------------------------------------------------------------------------------
class Source:
  def __init__(self, repo):
    self.repo = repo
    self.trees, self.funcs, self.files = {}, {}, {}
    for key, rel in SRC.items():
      path = os.path.join(repo, rel)
      self.files[key] = path
      self.trees[key] = ast.parse(open(path, encoding='utf-8').read())
    for tag, (fkey, cname) in CLASSES.items():
      cls = [n for n in self.trees[fkey].body if isinstance(n, ast.ClassDef) and n.name == cname]
      if len(cls) != 1:
        bad('class %s not found exactly once in %s' % (cname, SRC[fkey]))
      for n in cls[0].body:
        if isinstance(n, ast.FunctionDef):
          self.funcs['%s.%s' % (tag, n.name)] = (fkey, n)
          for m in n.body:
            if isinstance(m, ast.FunctionDef):
              self.funcs['%s.%s.%s' % (tag, n.name, m.name)] = (fkey, m)

  def func(self, qual):
    if qual not in self.funcs:
      bad('function %s not found' % qual)
    return self.funcs[qual]


class Footprint:
  """Generic reads / writes of one statement or expression (shared variables only) + the inlined calls it contains."""
  def __init__(self, tr, qual):
    self.tr, self.qual = tr, qual
    self.env = ENV.get(qual)
    if self.env is None:
      bad('no environment declared for function %s' % qual)
    self.rd, self.wr, self.calls = [], [], []
    self.fresh = tr.fresh_locals(qual)

  def add(self, lst, v):
    if v is not None and v not in lst:
      lst.append(v)

  # kind of an expression; records the reads performed by evaluating it (ctx 'load'), nothing for 'ref'
  def kind(self, e, load=True):
    q = self.qual
    if isinstance(e, ast.Name):
      if e.id in self.env:
        return self.env[e.id]
      if e.id in GLOBAL_VARS:
        k, v = GLOBAL_VARS[e.id]
        if load: self.add(self.rd, v)
        return k
      return 'val'          # a plain local / builtin: carries no shared state (checked: never used as an attribute base)
    if isinstance(e, ast.Attribute):
      if self._plain_chain(e):
        return 'val'
      bk = self.kind(e.value, load)
      if bk in ('val', 'fn', 'op', 'lock', 'cnt', 'box', 'res_new'):
        bad('attribute %r of a value of kind %s' % (e.attr, bk), e, q)
      key = (bk, e.attr)
      if key not in FIELDS:
        bad('unknown attribute %s.%s' % key, e, q)
      k, v = FIELDS[key]
      if load: self.add(self.rd, v)
      return k
    if isinstance(e, ast.Subscript):
      bk = self.kind(e.value, load)
      self.expr(e.slice)
      if bk == 'cnt':
        v = self._counter(e)
        if load: self.add(self.rd, v)
        return 'val'
      return 'val'
    if isinstance(e, ast.Call):
      return self.call(e)
    self.expr(e)
    return 'val'

  def _plain_chain(self, e):
    while isinstance(e, ast.Attribute):
      e = e.value
    return isinstance(e, ast.Name) and e.id in PLAIN and e.id not in self.env

  def _counter(self, e):
    if not (isinstance(e.slice, ast.Constant) and e.slice.value in ('PENDING', 'COMPLETED')):
      bad('status counter indexed by something else than a literal status', e, self.qual)
    return 'VCntPend' if e.slice.value == 'PENDING' else 'VCntComp'

  def expr(self, e):
    """Evaluates an expression for its reads."""
    if e is None:
      return
    if isinstance(e, (ast.Name, ast.Attribute, ast.Subscript, ast.Call)):
      self.kind(e, True); return
    if isinstance(e, ast.Constant):
      return
    if isinstance(e, (ast.BoolOp, ast.BinOp, ast.UnaryOp, ast.Compare, ast.Tuple, ast.List, ast.Dict, ast.JoinedStr, ast.FormattedValue, ast.IfExp, ast.keyword, ast.Slice, ast.Set)):
      for c in ast.iter_child_nodes(e):
        if isinstance(c, (ast.operator, ast.boolop, ast.unaryop, ast.cmpop, ast.expr_context)):
          continue
        self.expr(c)
      return
    bad('expression shape %s not handled' % type(e).__name__, e, self.qual)

  def call(self, e):
    q = self.qual
    f = e.func
    args = list(e.args) + [k.value for k in e.keywords]
    if isinstance(f, ast.Name):
      if f.id in DNA_WRITERS or f.id in DNA_READERS:
        if not (e.args and isinstance(e.args[0], ast.Name) and self.env.get(e.args[0].id) == 'dna'):
          bad('DNA helper applied to something that is not a declared DNA local', e, q)
        self.add(self.rd if f.id in DNA_READERS else self.wr, 'VDna')
        for a in args[1:]: self.expr(a)
        return 'val'
      if (q, f.id) in FN_CALLS:
        for a in args: self.expr(a)
        self.calls.append(('inline', FN_CALLS[(q, f.id)], e)); return 'val'
      if f.id in PLAIN:
        for a in args: self.expr(a)
        return 'res_new' if f.id == '_InMemoryResult' else 'val'
      bad('call of unknown function %s' % f.id, e, q)
    if isinstance(f, ast.Attribute):
      if self._plain_chain(f):
        for a in args: self.expr(a)
        return 'val'
      if isinstance(f.value, ast.Call) and isinstance(f.value.func, ast.Name) and f.value.func.id == 'super':
        return 'val'
      if isinstance(f.value, ast.Name) and f.value.id in self.fresh and f.value.id not in self.env and f.value.id not in GLOBAL_VARS:
        for a in args: self.expr(a)      # a method of a container that was created in this very function: touches no shared state
        return 'val'
      bk = self.kind(f.value, load=False)
      if (bk, f.attr) in FN_CALLS:
        for a in args: self.expr(a)
        self.calls.append(('inline', FN_CALLS[(bk, f.attr)], e)); return 'val'
      fk = FIELDS.get((bk, f.attr))
      if fk and fk[0] == 'op':             # a user operation stored in a field: reads the field, evaluates the arguments
        self.add(self.rd, fk[1])
        for a in args: self.expr(a)
        return 'val'
      m = METHODS.get((bk, f.attr)) or (METHODS.get(('alg', f.attr)) if bk == 'evo' else None)
      if m is None and bk in CLASSES and ('%s.%s' % (bk, f.attr)) in self.tr.src.funcs:
        # a helper method of an anchored class that has no table entry (e.g. extracted from a known method): inline it;
        # its parameters get the kinds of the arguments at this call site, its statements are looked up by text
        hq = '%s.%s' % (bk, f.attr)
        akinds = [self.kind(a_, load=True) if isinstance(a_, (ast.Name, ast.Attribute, ast.Subscript, ast.Call)) else (self.expr(a_) or 'val') for a_ in e.args]
        kkinds = {k.arg: (self.kind(k.value, load=True) if isinstance(k.value, (ast.Name, ast.Attribute, ast.Subscript, ast.Call)) else (self.expr(k.value) or 'val')) for k in e.keywords}
        self.tr.declare_helper(hq, bk, akinds, kkinds, e, q)
        self.calls.append(('inline', hq, e)); return 'val'
      if m is None:
        bad('unknown method %s.%s' % (bk, f.attr), e, q)
      if m[0] == 'inline':
        for a in args: self.expr(a)
        self.calls.append(('inline', m[1], e)); return 'trial' if f.attr == 'create_trial' else 'val'
      if m[0] == 'virtual':
        for a in args: self.expr(a)
        self.calls.append(('virtual', m[1], e)); return 'val'
      if m[0] == 'summary':
        for a in args: self.expr(a)
        r, w = self.tr.summary(m[1])
        for v in r: self.add(self.rd, v)
        for v in w: self.add(self.wr, v)
        return 'val'
      if m[0] == 'opaque':
        self.kind(f.value, load=True)      # reading the reference to the receiver
        for a in args: self.expr(a)
        for v in m[1]: self.add(self.rd, v)
        for v in m[2]: self.add(self.wr, v)
        return 'trial' if f.attr == 'get_latest_trial' else 'val'
      # container methods: the container is a shared variable carried by the attribute that yields it
      v = self._box_var(f.value)
      for a in args: self.expr(a)
      self.add(self.rd, v)
      if m[0] == 'mut':
        self.add(self.wr, v)
      return 'val'
    bad('call shape not handled', e, q)

  def _box_var(self, e):
    if isinstance(e, ast.Name) and e.id in GLOBAL_VARS:
      return GLOBAL_VARS[e.id][1]
    if isinstance(e, ast.Attribute):
      bk = self.kind(e.value, load=False)
      k, v = FIELDS.get((bk, e.attr), (None, None))
      if k == 'box' and v:
        return v
    bad('container method on something that is not a known shared container', e, self.qual)

  def store(self, t):
    """An assignment target."""
    q = self.qual
    if isinstance(t, ast.Name):
      if t.id in GLOBAL_VARS:
        bad('rebinding a module-level shared variable', t, q)
      return
    if isinstance(t, ast.Tuple):
      for x in t.elts: self.store(x)
      return
    if isinstance(t, ast.Attribute):
      bk = self.kind(t.value, load=False)
      if bk == 'gs':
        self.add(self.wr, 'VEGen'); return
      key = (bk, t.attr)
      if key not in FIELDS:
        bad('store to unknown attribute %s.%s' % key, t, q)
      self.add(self.wr, FIELDS[key][1])
      return
    if isinstance(t, ast.Subscript):
      bk = self.kind(t.value, load=False)
      self.expr(t.slice)
      if bk == 'cnt':
        self.add(self.wr, self._counter(t)); return
      if bk == 'val' and isinstance(t.value, ast.Name):
        return                      # item assignment into a plain local container
      self.add(self.wr, self._box_var(t.value)); return
    bad('assignment target not handled', t, q)

  def stmt(self, s):
    if isinstance(s, ast.Assign):
      self.expr(s.value)
      for t in s.targets: self.store(t)
    elif isinstance(s, ast.AugAssign):
      self.expr(s.value)
      self.kind(s.target, load=True)
      self.store(s.target)
    elif isinstance(s, ast.Expr):
      self.expr(s.value)
    elif isinstance(s, ast.Assert):
      self.expr(s.test); self.expr(s.msg)
    elif isinstance(s, ast.Delete):
      for t in s.targets:
        if not isinstance(t, ast.Name): bad('del of a non-local', s, self.qual)
    elif isinstance(s, ast.Return):
      self.expr(s.value)
    elif isinstance(s, ast.Raise):
      self.expr(s.exc)
    elif isinstance(s, ast.FunctionDef):
      pass
    else:
      bad('statement shape %s not handled' % type(s).__name__, s, self.qual)
    return self


class Translator:
  def __init__(self, repo):
    self.src = Source(repo)
    self._summaries = {}
    self._fresh = {}
    self._helpers = set()
    for k in list(ENV):
      if k not in ENV_DECLARED: del ENV[k]
    self.progs = []          # per entry: list of act dicts
    self.assumptions = []

  # -- helper methods without table entries ---------------------------------------------------------------------------
  def declare_helper(self, hq, tag, akinds, kkinds, node, caller):
    fkey, fn = self.src.func(hq)
    if fn.args.vararg or fn.args.kwarg or fn.decorator_list:
      bad('helper %s has a decorator or star-arguments' % hq, node, caller)
    params = [a.arg for a in fn.args.args]
    env = {params[0]: tag} if params else {}
    for name, k in zip(params[1:], akinds):
      if k not in ('val',): env[name] = k
    for name, k in kkinds.items():
      if name in params and k not in ('val',): env[name] = k
    # locals assigned from an expression of a known kind (two rounds are enough for chains of length two)
    for _ in range(2):
      for n in ast.walk(fn):
        if isinstance(n, ast.Assign) and len(n.targets) == 1 and isinstance(n.targets[0], ast.Name) and isinstance(n.value, (ast.Name, ast.Attribute)):
          ENV[hq] = env
          try:
            k = Footprint(self, hq).kind(n.value, load=False)
          except Untranslatable:
            k = 'val'
          if k not in ('val', 'box', 'cnt', 'fn', 'op', 'lock'):
            env[n.targets[0].id] = k
    old = ENV.get(hq) if hq in self._helpers else None
    if old is not None and old != env:
      bad('helper %s is called with arguments of different kinds' % hq, node, caller)
    ENV[hq] = env
    self._helpers.add(hq)

  # -- locals that only ever hold a container created in the function itself (`x = set()`, `x = []`, `x = list(...)`) --------
  def fresh_locals(self, qual):
    if qual in self._fresh:
      return self._fresh[qual]
    fkey, fn = self.src.func(qual)
    assigned = {}
    def is_fresh(v):
      if isinstance(v, (ast.List, ast.Dict, ast.Set, ast.Tuple)):
        return True
      return isinstance(v, ast.Call) and isinstance(v.func, ast.Name) and v.func.id in ('set', 'list', 'dict', 'tuple')
    def targets(t):
      if isinstance(t, ast.Name): yield t.id
      elif isinstance(t, (ast.Tuple, ast.List)):
        for x in t.elts: yield from targets(x)
      elif isinstance(t, ast.Starred): yield from targets(t.value)
    for n in ast.walk(fn):
      if isinstance(n, ast.Assign):
        for t in n.targets:
          if isinstance(t, ast.Name):
            assigned.setdefault(t.id, []).append(is_fresh(n.value))
          else:
            for name in targets(t): assigned.setdefault(name, []).append(False)
      elif isinstance(n, (ast.AugAssign, ast.AnnAssign)):
        for name in targets(n.target): assigned.setdefault(name, []).append(False)
      elif isinstance(n, (ast.For, ast.comprehension)):
        for name in targets(n.target): assigned.setdefault(name, []).append(False)
      elif isinstance(n, ast.NamedExpr):
        for name in targets(n.target): assigned.setdefault(name, []).append(False)
      elif isinstance(n, (ast.With,)):
        for it in n.items:
          if it.optional_vars is not None:
            for name in targets(it.optional_vars): assigned.setdefault(name, []).append(False)
    params = {a.arg for a in fn.args.args + fn.args.kwonlyargs} | ({fn.args.vararg.arg} if fn.args.vararg else set()) | ({fn.args.kwarg.arg} if fn.args.kwarg else set())
    self._fresh[qual] = {k for k, v in assigned.items() if v and all(v) and k not in params}
    return self._fresh[qual]

  # -- summaries (functions executed atomically under a lock, e.g. Evolution._evolve) ----------------
  def summary(self, qual):
    if qual in self._summaries:
      return self._summaries[qual]
    fkey, fn = self.src.func(qual)
    rd, wr = [], []
    def merge(fp):
      if fp.calls:
        bad('a summarised function calls a translated function', fn, qual)
      for v in fp.rd:
        if v not in rd: rd.append(v)
      for v in fp.wr:
        if v not in wr: wr.append(v)
    def walk(stmts):
      for s in stmts:
        if _is_doc(s): continue
        if isinstance(s, ast.If):
          fp = Footprint(self, qual); fp.expr(s.test); merge(fp); walk(s.body); walk(s.orelse)
        elif isinstance(s, ast.For):
          fp = Footprint(self, qual); fp.expr(s.iter); fp.store(s.target); merge(fp); walk(s.body)
          if s.orelse: bad('for-else', s, qual)
        elif isinstance(s, (ast.With, ast.Try, ast.While)):
          bad('statement shape %s inside a summarised function' % type(s).__name__, s, qual)
        else:
          merge(Footprint(self, qual).stmt(s))
    walk(fn.body)
    self._summaries[qual] = (rd, wr)
    return rd, wr

  # -- emission -----------------------------------------------------------------------------------
  def translate_entry(self, qual):
    self.acts = []
    self.labels = {}
    self.nlabel = 0
    end = self.new_label()
    self.inline(qual, chain=(), locks=[], end_label=end, depth=0)
    self.place(end)
    self.emit(False, ('Done',), None, 'return to the worker')
    return self.resolve()

  def new_label(self):
    self.nlabel += 1
    return 'L%d' % self.nlabel

  def place(self, label):
    self.labels[label] = len(self.acts)

  def emit(self, gate, act, key, note=''):
    self.acts.append(dict(gate=gate, act=act, key=key, note=note))

  def resolve(self):
    out = []
    for i, a in enumerate(self.acts):
      act = a['act']
      if act[0] in ('Branch', 'Jump'):
        tgt = self.labels[act[-1]]
        off = tgt - (i + 1)
        if off < 0:
          bad('backward jump generated (loops are not supported)')
        act = act[:-1] + (off,)
      out.append(dict(gate=a['gate'], act=act, key=a['key'], note=a['note']))
    return out

  def inline(self, qual, chain, locks, end_label, depth):
    """Translates the body of `qual` in call context `chain`; `locks`: lock refs held on entry (outermost first)."""
    if depth > 12:
      bad('inlining depth exceeded (recursion?) at %s' % qual)
    fkey, fn = self.src.func(qual)
    self.block(fn.body, qual, fkey, chain, list(locks), len(locks), end_label, depth, in_try=False)

  def key(self, chain, qual, fkey, line, kind='line'):
    return chain + ((qual, line),), kind

  def block(self, stmts, qual, fkey, chain, locks, base, end_label, depth, in_try):
    for s in stmts:
      if _is_doc(s):
        continue
      text = ast.unparse(s) if not isinstance(s, (ast.If, ast.With, ast.Try, ast.FunctionDef)) else None
      k = self.key(chain, qual, fkey, s.lineno)
      if isinstance(s, ast.With):
        if len(s.items) != 1 or s.items[0].optional_vars is not None:
          bad('with statement with several items or a target', s, qual)
        ltxt = ast.unparse(s.items[0].context_expr)
        lref = LOCKS.get((qual.split('.')[0], ltxt))
        if lref is None:
          bad('with statement on something that is not a known lock: %s' % ltxt, s, qual)
        self.emit(True, ('Acquire', lref), (k[0], 'acq'), 'with %s:' % ltxt)
        self.block(s.body, qual, fkey, chain, locks + [lref], base, end_label, depth, in_try)
        self.emit(False, ('Release', lref), None, 'end of with %s' % ltxt)
      elif isinstance(s, ast.If):
        ttxt = ast.unparse(s.test)
        cnd = _lookup(CONDS, qual, ttxt)
        s_body, s_orelse = s.body, s.orelse
        if cnd is None and isinstance(s.test, ast.UnaryOp) and isinstance(s.test.op, ast.Not):
          # `if not X: A else: B` with a known X is `if X: B else: A`
          cnd = _lookup(CONDS, qual, ast.unparse(s.test.operand))
          s_body, s_orelse = s.orelse, s.body
        if cnd is None:
          bad('unknown condition', s.test, qual)
        fp = Footprint(self, qual); fp.expr(s.test)
        els, fin = self.new_label(), self.new_label()
        if fp.calls:
          if len(fp.calls) != 1 or fp.calls[0][0] != 'inline':
            bad('a condition with more than one inlined call', s.test, qual)
          self.emit(True, ('Stmt', [], [], 'ENop'), k, 'if %s  (evaluate the arguments)' % ttxt)
          self.do_call(fp.calls[0], qual, chain, s.lineno, locks, depth)
          self.emit(False, ('Branch', fp.rd, cnd, els), None, 'if %s' % ttxt)
        else:
          self.emit(True, ('Branch', fp.rd, cnd, els), k, 'if %s' % ttxt)
        if fp.wr:
          bad('a condition that writes shared state', s.test, qual)
        self.block(s_body, qual, fkey, chain, locks, base, end_label, depth, in_try)
        if s_orelse:
          self.emit(False, ('Jump', fin), None, 'skip else')
          self.place(els)
          self.block(s_orelse, qual, fkey, chain, locks, base, end_label, depth, in_try)
          self.place(fin)
        else:
          self.place(els); self.place(fin)
      elif isinstance(s, ast.Try):
        if s.orelse or s.finalbody or len(s.handlers) != 1 or ast.unparse(s.handlers[0].type) != 'StopIteration' or s.handlers[0].name:
          bad('try statement of an unsupported shape', s, qual)
        fin = self.new_label()
        self.block(s.body, qual, fkey, chain, locks, base, end_label, depth, in_try=True)
        self.emit(False, ('Jump', fin), None, 'try body completed: skip the handler')
        self.block(s.handlers[0].body, qual, fkey, chain, locks, base, end_label, depth, in_try)
        self.place(fin)
        self.assumptions.append('%s line %d: the statements of the try body do not raise StopIteration in the modelled configurations (the handler is translated but unreachable in the model)' % (qual, s.lineno))
      elif isinstance(s, ast.FunctionDef):
        self.emit(True, ('Stmt', [], [], 'ENop'), k, 'def %s' % s.name)
      elif isinstance(s, (ast.For, ast.While, ast.AsyncFor, ast.AsyncWith, ast.Match)):
        bad('statement shape %s not supported' % type(s).__name__, s, qual)
      else:
        fp = Footprint(self, qual).stmt(s)
        eff = _lookup(EFFECTS, qual, text)
        if eff is None:
          for (q2, pre, e2) in EFFECT_PREFIXES:
            if q2 == qual and text.startswith(pre):
              eff = e2
        if eff is None:
          if fp.rd or fp.wr:
            bad('statement touches shared state %s/%s but has no effect entry' % (fp.rd, fp.wr), s, qual)
          eff = 'ENop'
        if in_try and isinstance(s, ast.Raise):
          bad('raise inside a try body', s, qual)
        if isinstance(s, ast.Expr) and isinstance(s.value, ast.Call) and self._is_set_active(s.value, qual):
          pass
        self.emit(True, ('Stmt', fp.rd, fp.wr, eff), k, text)
        for c in fp.calls:
          self.do_call(c, qual, chain, s.lineno, locks, depth)
        if isinstance(s, ast.Return):
          for l in reversed(locks[base:]):
            self.emit(False, ('Release', l), None, 'leaving with %s by return' % l)
          self.emit(False, ('Jump', end_label), None, 'return')
        elif isinstance(s, ast.Raise):
          name = s.exc.func.id if isinstance(s.exc, ast.Call) and isinstance(s.exc.func, ast.Name) else None
          if name not in EXNS:
            bad('raise of an unknown exception', s, qual)
          for l in reversed(locks):
            self.emit(False, ('Release', l), None, 'leaving with %s by exception' % l)
          self.emit(False, ('Throw', EXNS[name]), None, 'raise %s' % name)

  def _is_set_active(self, call, qual):
    # `_set_active(False)`: the translated effect is ESetActive false; any other argument is refused
    if isinstance(call.func, ast.Attribute) and call.func.attr == '_set_active':
      if not (len(call.args) == 1 and isinstance(call.args[0], ast.Constant) and call.args[0].value is False):
        bad('_set_active called with something else than False', call, qual)
      return True
    return False

  def do_call(self, c, qual, chain, line, locks, depth):
    kind, target, node = c
    chain2 = chain + ((qual, line),)
    if kind == 'inline':
      end = self.new_label()
      self.inline(target, chain2, locks, end, depth + 1)
      self.place(end)
    else:
      # virtual method of the algorithm: Evolution's implementation (anchored) or the harness algorithms' (outside)
      other, fin = self.new_label(), self.new_label()
      self.emit(False, ('Branch', [], 'CFlag FIsEvo', other), None, 'dispatch self.%s()' % target)
      end = self.new_label()
      self.inline('evo.' + target, chain2, locks, end, depth + 1)
      self.place(end)
      self.emit(False, ('Jump', fin), None, '')
      self.place(other)
      eff = VIRTUAL_OTHER[target]
      if eff:
        self.emit(False, ('Stmt', [], [], eff), None, 'non-Evolution %s (outside the anchored files)' % target)
      self.place(fin)


def _lookup(table, qual, text):
  """(function, text) entry; for a function without own entries (a helper extracted from a known method) the entry of the
  same text in another method of the SAME class, provided all such entries agree."""
  v = table.get((qual, text))
  if v is not None:
    return v
  if any(q == qual for (q, _) in table) or qual in ENV_DECLARED:
    return None
  tag = qual.split('.')[0]
  found = {val for (q, t), val in table.items() if t == text and q.split('.')[0] == tag}
  return found.pop() if len(found) == 1 else None


def _is_doc(s):
  return isinstance(s, ast.Expr) and isinstance(s.value, ast.Constant) and isinstance(s.value.value, str)


# ---------------------------------------------------------------------------------------------------
def _check_sample(src):
  """sample.py is glue: one backend is created, then `backend.next()` is called until StopIteration.  Checked, not translated."""
  fn = [n for n in src.trees['sample'].body if isinstance(n, ast.FunctionDef) and n.name == 'sample']
  if len(fn) != 1:
    bad('sample() not found')
  loops = [n for n in fn[0].body if isinstance(n, ast.While)]
  if len(loops) != 1 or ast.unparse(loops[0].test) != 'True':
    bad('sample(): expected exactly one `while True` loop')
  body = loops[0].body
  if not (len(body) == 1 and isinstance(body[0], ast.Try) and len(body[0].handlers) == 1
          and ast.unparse(body[0].handlers[0].type) == 'StopIteration' and ast.unparse(body[0].handlers[0].body[0]) == 'return'):
    bad('sample(): the loop body is not `try: ... except StopIteration: return`')
  first = ast.unparse(body[0].body[0])
  if first != 'feedback = backend.next()':
    bad('sample(): the loop does not start with feedback = backend.next(): %s' % first)
  creates = [n for n in ast.walk(fn[0]) if isinstance(n, ast.Call) and isinstance(n.func, ast.Attribute) and n.func.attr == 'create']
  if len(creates) != 1:
    bad('sample(): expected exactly one backend creation')


def _line_tables(src, quals):
  """per function: definition line, and line -> (first line of the statement whose header contains it, is-with-header)"""
  out = {}
  for q in quals:
    fkey, fn = src.func(q)
    l2s = {}
    def walk(stmts):
      for s in stmts:
        if _is_doc(s): continue
        if isinstance(s, ast.If):
          for ln in range(s.lineno, s.test.end_lineno + 1): l2s[ln] = (s.lineno, 'if')
          walk(s.body); walk(s.orelse)
        elif isinstance(s, ast.With):
          for ln in range(s.lineno, s.items[-1].context_expr.end_lineno + 1): l2s[ln] = (s.lineno, 'with')
          walk(s.body)
        elif isinstance(s, ast.Try):
          l2s[s.lineno] = (s.lineno, 'try')
          walk(s.body)
          for h in s.handlers:
            l2s[h.lineno] = (h.lineno, 'except')
            walk(h.body)
        elif isinstance(s, ast.FunctionDef):
          l2s[s.lineno] = (s.lineno, 'stmt')
        else:
          for ln in range(s.lineno, s.end_lineno + 1): l2s[ln] = (s.lineno, 'stmt')
    walk(fn.body)
    out[q] = dict(file=SRC[fkey], defline=fn.lineno, name=fn.name, lines=l2s)
  return out


def _coq_list(xs):
  return '[' + '; '.join(xs) + ']'

def _coq_act(a):
  k = a[0]
  if k in ('Acquire', 'Release'): return '%s %s' % (k, a[1])
  if k == 'Stmt': return 'Stmt %s %s (%s)' % (_coq_list(a[1]), _coq_list(a[2]), a[3]) if ' ' in a[3] else 'Stmt %s %s %s' % (_coq_list(a[1]), _coq_list(a[2]), a[3])
  if k == 'Branch': return 'Branch %s (%s) %d' % (_coq_list(a[1]), a[2], a[3]) if ' ' in a[2] else 'Branch %s %s %d' % (_coq_list(a[1]), a[2], a[3])
  if k == 'Jump': return 'Jump %d' % a[1]
  if k == 'Throw': return 'Throw %s' % a[1]
  if k == 'Done': return 'Done'
  raise Untranslatable('act %r' % (a,))

def _clean(s):
  return s.replace('(*', '( *').replace('*)', '* )').replace('\n', ' ').replace('"', "'")[:110]

NAMES = ['p_init', 'p_next', 'p_add', 'p_done', 'p_skip', 'p_stop', 'p_end']

def translate(repo=None):
  """-> (coq text, info).  info: progs (list of act dicts per entry), functions (line tables), assumptions."""
  repo = repo or REPO
  tr = Translator(repo)
  _check_sample(tr.src)
  progs = [tr.translate_entry(q) for q in ENTRIES]
  used = set()
  for p in progs:
    for a in p:
      if a['key']:
        for (q, _) in a['key'][0]:
          used.add(q)
  tables = _line_tables(tr.src, sorted(used))
  out = ['(* GENERATED by harness/translators/sched_prog.py from the sources under pyglove/ — do not edit.',
         '   One flat program per API entry of the in-memory backend; (gate, act) pairs, see Model/Sched.v. *)',
         'From Coq Require Import List ZArith.', 'Import ListNotations.', 'From PG Require Import Model.Sched.', '']
  for name, q, p in zip(NAMES, ENTRIES, progs):
    out.append('(* %s *)' % q)
    out.append('Definition %s : prog := [' % name)
    for i, a in enumerate(p):
      where = ''
      if a['key']:
        ch = a['key'][0]
        where = '%s:%d ' % (ch[-1][0], ch[-1][1])
      out.append('  (%s, %s)%s  (* %d: %s%s *)' % ('true' if a['gate'] else 'false', _coq_act(a['act']), ';' if i + 1 < len(p) else '', i, where, _clean(a['note'])))
    out.append('].')
    out.append('')
  out.append('Definition progs : progs := %s.' % _coq_list(NAMES))
  out.append('')
  info = dict(progs=progs, functions=tables, assumptions=sorted(set(tr.assumptions)), entries=ENTRIES,
              summaries={k: v for k, v in tr._summaries.items()})
  return '\n'.join(out), info


if __name__ == '__main__':
  import sys
  text, info = translate(sys.argv[1] if len(sys.argv) > 1 else None)
  print(text)
  print('(* %d acts, %d gates *)' % (sum(len(p) for p in info['progs']), sum(1 for p in info['progs'] for a in p if a['gate'])))

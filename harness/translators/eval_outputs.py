"""Translator for C19 (third part): the symbol handling of evaluate() in /repo/pyglove/core/coding/execution.py
-> coq/Gen/EvalOutPlan.v

It reads, statement by statement (ast.dump must match a recognised shape exactly; anything else raises TranslationError):
  * context() / get_context(): an inner context starts from the enclosing one and updates it with its own symbols;
  * evaluate(): the symbols are the context's, updated with global_vars; they are snapshotted before anything is executed;
  * the `if outputs_intermediate:` block: '__builtins__' is skipped, a name is reported iff it is new or bound to another
    object than the snapshot's.
and emits the four decisions as the plan `out_plan : oplan` of Model/EvalOut.v.
"""
import ast, os

class TranslationError(Exception):
  pass

REPO = os.environ.get('VERIF_REPO', '/repo')

def _d(src):
  return ast.dump(ast.parse(src).body[0])

def _strip_doc(body):
  if body and isinstance(body[0], ast.Expr) and isinstance(getattr(body[0], 'value', None), ast.Constant) and isinstance(body[0].value.value, str):
    return body[1:]
  return body

GET_CTX_1 = _d("context_stack = utils.thread_local_get(_TLS_CODE_RUN_CONTEXT, None)")
GET_CTX_2 = _d("return dict(context_stack[-1]) if context_stack else {}")
CTX_INNER = [_d("ctx = get_context()"), _d("ctx.update(kwargs)")]
CTX_OUTER = [_d("ctx = dict(kwargs)"), _d("ctx.update(get_context())")]
CTX_PUSH = _d("utils.thread_local_push(_TLS_CODE_RUN_CONTEXT, ctx)")
CTX_TRY = _d("try:\n  yield ctx\nfinally:\n  utils.thread_local_pop(_TLS_CODE_RUN_CONTEXT)")
SYM_GV = [_d("ctx = dict(get_context())"), _d("if global_vars:\n  ctx.update(global_vars)")]
SYM_CTX = [_d("ctx = dict(global_vars or {})"), _d("ctx.update(get_context())")]
SNAPSHOT = _d("global_vars, orig_global_vars = ctx, ctx.copy()")
OUT_INIT = _d("outputs = {}")
OUT_STDOUT = _d("outputs[STDOUT_KEY] = stdout.getvalue()")
OUT_RETURN = _d("return outputs")
SKIP = _d("if k == '__builtins__':\n  continue")
COND = _d("if k not in orig_global_vars or v is not orig_global_vars[k]:\n  outputs[k] = v")
PUT = _d("outputs[k] = v")
LOOP_HEAD = ast.dump(ast.parse("for k, v in global_vars.items():\n  pass").body[0].target), ast.dump(ast.parse("for k, v in global_vars.items():\n  pass").body[0].iter)

def _fn(tree, name):
  fs = [n for n in tree.body if isinstance(n, ast.FunctionDef) and n.name == name]
  if len(fs) != 1:
    raise TranslationError('%s() not found (or defined twice)' % name)
  return fs[0]

def translate(repo=None):
  repo = repo or REPO
  tree = ast.parse(open(os.path.join(repo, 'pyglove/core/coding/execution.py')).read())
  # --- get_context / context
  gc = [ast.dump(s) for s in _strip_doc(_fn(tree, 'get_context').body)]
  if gc != [GET_CTX_1, GET_CTX_2]:
    raise TranslationError('get_context() is not `the top of the context stack, copied, or {}`')
  cb = [ast.dump(s) for s in _strip_doc(_fn(tree, 'context').body)]
  if len(cb) != 4 or cb[2] != CTX_PUSH or cb[3] != CTX_TRY:
    raise TranslationError('context() does not push the assembled symbols and pop them in a finally')
  if cb[:2] == CTX_INNER: inner = True
  elif cb[:2] == CTX_OUTER: inner = False
  else: raise TranslationError('context(): how the enclosing symbols and the new ones are combined is not recognised')
  # --- evaluate: symbols and snapshot
  ev = _fn(tree, 'evaluate')
  body = _strip_doc(ev.body)
  dumps = [ast.dump(s) for s in body]
  def find_pair(pair):
    for i in range(len(dumps) - 1):
      if dumps[i:i + 2] == pair:
        return i
    return None
  i_gv, i_ctx = find_pair(SYM_GV), find_pair(SYM_CTX)
  if i_gv is not None and i_ctx is None: gv_over, i_sym = True, i_gv
  elif i_ctx is not None and i_gv is None: gv_over, i_sym = False, i_ctx
  else: raise TranslationError('evaluate(): how context symbols and global_vars are combined is not recognised')
  if dumps.count(SNAPSHOT) != 1:
    raise TranslationError('evaluate(): `global_vars, orig_global_vars = ctx, ctx.copy()` not found exactly once')
  i_snap = dumps.index(SNAPSHOT)
  withs = [i for i, s in enumerate(body) if isinstance(s, ast.With)]
  if len(withs) != 1 or not (i_sym < i_snap < withs[0]):
    raise TranslationError('evaluate(): the symbols must be assembled, then snapshotted, then the program executed')
  # nothing else may write ctx / global_vars / orig_global_vars at the top level of evaluate()
  for j, s in enumerate(body):
    if j in (i_sym, i_sym + 1, i_snap) or isinstance(s, ast.With):
      continue
    for n in ast.walk(s):
      if isinstance(n, ast.Name) and n.id in ('ctx', 'orig_global_vars') and isinstance(n.ctx, (ast.Store, ast.Del)):
        raise TranslationError('evaluate(): %s is written outside the recognised statements' % n.id)
      if isinstance(n, ast.Attribute) and isinstance(n.value, ast.Name) and n.value.id in ('ctx', 'orig_global_vars') and n.attr in ('update', 'pop', 'clear', 'setdefault', 'popitem', '__setitem__', '__delitem__'):
        raise TranslationError('evaluate(): %s is mutated outside the recognised statements' % n.value.id)
  for n in ast.walk(ev):
    if isinstance(n, ast.Name) and n.id == 'orig_global_vars' and isinstance(n.ctx, (ast.Store, ast.Del)) and n not in ast.walk(body[i_snap]):
      raise TranslationError('evaluate(): orig_global_vars is written again')
  # --- the report
  rep = [s for s in body if isinstance(s, ast.If) and ast.dump(s.test) == "Name(id='outputs_intermediate', ctx=Load())"]
  if len(rep) != 1 or rep[0].orelse or body.index(rep[0]) < withs[0]:
    raise TranslationError('evaluate(): the `if outputs_intermediate:` block after the execution was not found')
  rb = rep[0].body
  if len(rb) != 4 or ast.dump(rb[0]) != OUT_INIT or ast.dump(rb[2]) != OUT_STDOUT or ast.dump(rb[3]) != OUT_RETURN or not isinstance(rb[1], ast.For):
    raise TranslationError('evaluate(): the report block is not `outputs = {}; for …; outputs[STDOUT_KEY] = …; return outputs`')
  loop = rb[1]
  if (ast.dump(loop.target), ast.dump(loop.iter)) != LOOP_HEAD or loop.orelse:
    raise TranslationError('evaluate(): the report loop does not run over global_vars.items()')
  lb = [ast.dump(s) for s in loop.body]
  table = {(SKIP, COND): (True, True), (COND,): (False, True), (SKIP, PUT): (True, False), (PUT,): (False, False)}
  if tuple(lb) not in table:
    raise TranslationError('evaluate(): the body of the report loop is not recognised')
  skip, changed = table[tuple(lb)]
  b = lambda x: 'true' if x else 'false'
  out = ['(* GENERATED by harness/translators/eval_outputs.py from context() / get_context() / evaluate() in',
         '   pyglove/core/coding/execution.py. Do not edit. *)',
         'From PG Require Import Model.EvalOut.', '',
         'Definition out_plan : oplan :=',
         '  {| gv_over_ctx := %s; inner_over_outer := %s; skip_builtins := %s; changed_only := %s |}.' % (b(gv_over), b(inner), b(skip), b(changed)), '']
  return '\n'.join(out), dict(gv_over_ctx=gv_over, inner_over_outer=inner, skip_builtins=skip, changed_only=changed)

if __name__ == '__main__':
  print(translate()[0])

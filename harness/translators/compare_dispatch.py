"""Translator for C06: the dispatch order of base.eq and base.lt -> coq/Gen/CompareDispatch.v

Reads `eq` and `lt` of /repo/pyglove/core/symbolic/base.py with `ast`.  Every branch is recognised by its guard (compared as a
normalised ast.dump) and its body must have the fingerprint recorded here; the order in which the branches are tried is
emitted as two Coq lists.  The helper functions the model transcribes by hand (ne, gt, _key_order, callable_eq, Symbolic.sym_eq / sym_ne / sym_lt / sym_gt,
Object.sym_eq / sym_lt / sym_hash / __eq__ / __ne__ / __hash__, Dict / List.sym_hash / __hash__, MissingValue.__eq__ / __ne__ / __hash__) must have their recorded fingerprints too.
Fail-closed: an unknown guard, a changed body, a missing or duplicated branch raises TranslationError.  Never imports pyglove.
Run `python harness/translators/compare_dispatch.py --fingerprints` to print the fingerprints of the current source.
"""
import ast, hashlib, os, sys

class TranslationError(Exception):
  pass

REPO = os.environ.get('VERIF_REPO', '/repo')
BASE = 'pyglove/core/symbolic/base.py'

def _strip_doc(body):
  if body and isinstance(body[0], ast.Expr) and isinstance(getattr(body[0], 'value', None), ast.Constant) and isinstance(body[0].value.value, str):
    return body[1:]
  return body

def fp(nodes):
  """Fingerprint of a statement list (docstrings and comments do not count)."""
  if isinstance(nodes, ast.AST): nodes = [nodes]
  return hashlib.sha256('\n'.join(ast.dump(n) for n in nodes).encode()).hexdigest()[:16]

def _expr(src):
  return ast.dump(ast.parse(src, mode='eval').body)

# guards of base.eq, by meaning
EQ_GUARDS = {
    _expr('left is right'): 'EIdentity',
    _expr('(isinstance(left, list) and isinstance(right, list)) or (isinstance(left, tuple) and isinstance(right, tuple))'): 'ESeq',
    _expr('isinstance(left, dict)'): 'EDictLeft',
    _expr("hasattr(left, 'sym_eq') and not inspect.isclass(left) and left.sym_eq.__code__ is not Symbolic.sym_eq.__code__"): 'ESymEqLeft',
    _expr("hasattr(right, 'sym_eq') and not inspect.isclass(right) and right.sym_eq.__code__ is not Symbolic.sym_eq.__code__"): 'ESymEqRight',
}
LT_GUARDS = {
    _expr('isinstance(left, list)'): 'LList',
    _expr('isinstance(left, dict)'): 'LDict',
    _expr("hasattr(left, 'sym_lt')"): 'LSymLt',
    _expr('left is None or isinstance(left, utils.MissingValue)'): 'LNoneMissing',
}
LEAF_TYPES = {'int', 'float', 'bool', 'str'}

# fingerprints of the branch bodies / helper functions the model transcribes (recorded from the tree the model was written against)
BODY_FP = {
    'eq/EIdentity': '4a8ef490a01d3017',
    'eq/ESeq': '85317cb7777ccc95',
    'eq/EDictLeft': '16220b6999b55c30',
    'eq/ESymEqLeft': 'b2b7051364dc75ea',
    'eq/ESymEqRight': 'e38dc596bd02e348',
    'eq/EFallback': '1a38554faed54a70',
    'lt/rank': 'f5c45e2e6f3f1b78',
    'lt/LLeaf': '6ae754a89d4bc1ac',
    'lt/LList': 'b2d5f3b4e9db98b0',
    'lt/LDict': '3a28199efa388fdd',
    'lt/LSymLt': '3452b198b2afcab2',
    'lt/LNoneMissing': 'dd863ea504e8543d',
    'lt/LNative': '6ae754a89d4bc1ac',
    'base.ne': '698b5f912744a3a5',
    'base.gt': 'd5a08b79eb9ac9d5',
    'base._key_order': '28de64fe4565c568',
    'object.Object.sym_eq': '692c6f1f6224f784',
    'object.Object.sym_lt': '3bdc3c0baa2b6a26',
    'object.Object.sym_hash': 'b721a86b99c52b92',
    'object.Object.__eq__': 'ff2fda6684984da5',
    'object.Object.__ne__': 'aeee751877428d4d',
    'object.Object.__hash__': '292e86d0d4f4419b',
    'dict.Dict.sym_hash': '640c073b7ed1ba13',
    'list.List.sym_hash': '4c39032a677c8438',
    'list.List.__hash__': 'ba47b5633899abbb',
    'dict.Dict.__hash__': 'ba47b5633899abbb',
    'base.Symbolic.sym_eq': 'ef697ed9ca6a082a',
    'base.Symbolic.sym_ne': 'ee73bda4b08f8f0f',
    'base.Symbolic.sym_lt': '58f67dd9f1f22a34',
    'base.Symbolic.sym_gt': '08518d6d9d3de220',
    'utils.MissingValue.__eq__': '2ea57b28e2fdf657',
    'utils.MissingValue.__ne__': '4d33ff87b8f494bd',
    'utils.MissingValue.__hash__': '5aa5bd107aecad5a',
    'typing.inspect.callable_eq': '4516ca1c55810805',
}

def _func(tree, name, cls=None):
  scope = tree.body
  if cls:
    cs = [n for n in tree.body if isinstance(n, ast.ClassDef) and n.name == cls]
    if len(cs) != 1: raise TranslationError('expected exactly one class %s' % cls)
    scope = cs[0].body
  fs = [n for n in scope if isinstance(n, ast.FunctionDef) and n.name == name]
  if len(fs) != 1: raise TranslationError('expected exactly one function %s%s, found %d' % (cls + '.' if cls else '', name, len(fs)))
  return fs[0]

def _chain(stmts):
  """Flattens `if a: A elif b: B ... [else: Z]` statements following each other into [(guard-expr | None, body)]."""
  out = []
  for st in stmts:
    if isinstance(st, ast.If):
      node = st
      while True:
        out.append((node.test, node.body))
        if len(node.orelse) == 1 and isinstance(node.orelse[0], ast.If):
          node = node.orelse[0]; continue
        if node.orelse:
          out.append((None, node.orelse))
        break
    else:
      out.append((None, [st]))
  return out

def read(found=None):
  """-> (eq branch order, lt branch order); `found` collects the fingerprints seen."""
  found = {} if found is None else found
  def parse(rel): return ast.parse(open(os.path.join(REPO, rel), encoding='utf-8').read())
  base = parse(BASE)
  # ---- eq
  eq_order = []
  for guard, body in _chain(_strip_doc(_func(base, 'eq').body)):
    if guard is None:
      name = 'EFallback'
    else:
      name = EQ_GUARDS.get(ast.dump(guard))
      if name is None: raise TranslationError('unrecognised guard in base.eq: %s' % ast.unparse(guard))
    if name in eq_order: raise TranslationError('branch %s occurs twice in base.eq' % name)
    if eq_order and eq_order[-1] == 'EFallback': raise TranslationError('statements after the final return of base.eq')
    eq_order.append(name); found['eq/' + name] = fp(body)
  if set(eq_order) != {'EIdentity', 'ESeq', 'EDictLeft', 'ESymEqLeft', 'ESymEqRight', 'EFallback'}:
    raise TranslationError('base.eq does not have the six known branches: %s' % eq_order)
  # ---- lt
  stmts = _strip_doc(_func(base, 'lt').body)
  if not stmts or not isinstance(stmts[0], ast.If) or ast.dump(stmts[0].test) != _expr('type(left) is not type(right)') or stmts[0].orelse:
    raise TranslationError('base.lt does not start with the type-order test')
  found['lt/rank'] = fp(stmts[0].body)
  lt_order = []
  for guard, body in _chain(stmts[1:]):
    if guard is None:
      name = 'LNative'
    else:
      d = ast.dump(guard)
      name = LT_GUARDS.get(d)
      if name is None and isinstance(guard, ast.Call) and isinstance(guard.func, ast.Name) and guard.func.id == 'isinstance' and len(guard.args) == 2 \
          and ast.dump(guard.args[0]) == _expr('left') and isinstance(guard.args[1], ast.Tuple) \
          and all(isinstance(e, ast.Name) for e in guard.args[1].elts) and {e.id for e in guard.args[1].elts} == LEAF_TYPES:
        name = 'LLeaf'
      if name is None: raise TranslationError('unrecognised guard in base.lt: %s' % ast.unparse(guard))
    if name in lt_order: raise TranslationError('branch %s occurs twice in base.lt' % name)
    if lt_order and lt_order[-1] == 'LNative': raise TranslationError('statements after the final return of base.lt')
    lt_order.append(name); found['lt/' + name] = fp(body)
  if set(lt_order) != {'LLeaf', 'LList', 'LDict', 'LSymLt', 'LNoneMissing', 'LNative'}:
    raise TranslationError('base.lt does not have the six known branches: %s' % lt_order)
  # ---- helpers
  for n in ('ne', 'gt', '_key_order'):
    found['base.' + n] = fp(_strip_doc(_func(base, n).body))
  for mod, cls, names in (('object', 'Object', ['sym_eq', 'sym_lt', 'sym_hash', '__eq__', '__ne__', '__hash__']),
                          ('dict', 'Dict', ['sym_hash', '__hash__']), ('list', 'List', ['sym_hash', '__hash__'])):
    t = parse('pyglove/core/symbolic/%s.py' % mod)
    for n in names:
      found['%s.%s.%s' % (mod, cls, n)] = fp(_strip_doc(_func(t, n, cls).body))
  for n in ('sym_eq', 'sym_ne', 'sym_lt', 'sym_gt'):
    found['base.Symbolic.' + n] = fp(_strip_doc(_func(base, n, 'Symbolic').body))
  mv = parse('pyglove/core/utils/missing.py')
  for n in ('__eq__', '__ne__', '__hash__'):
    found['utils.MissingValue.' + n] = fp(_strip_doc(_func(mv, n, 'MissingValue').body))
  found['typing.inspect.callable_eq'] = fp(_strip_doc(_func(parse('pyglove/core/typing/inspect.py'), 'callable_eq').body))
  return eq_order, lt_order, found

def translate():
  eq_order, lt_order, found = read()
  changed = sorted(k for k in BODY_FP if found.get(k) != BODY_FP[k])
  if changed:
    raise TranslationError('the source of %s is not the text the model was transcribed from (fingerprints %s)' %
                           (', '.join(changed), ', '.join('%s=%s' % (k, found.get(k)) for k in changed)))
  text = '''(* GENERATED by harness/translators/compare_dispatch.py from pyglove/core/symbolic/base.py (eq, lt).
   Do not edit: rewritten by every run of ./check C06 when the source text changes.
   The order in which base.eq / base.lt try their branches (each branch recognised by its guard, body fingerprinted). *)
From Coq Require Import List.
Import ListNotations.

Inductive ebranch : Type := EIdentity | ESeq | EDictLeft | ESymEqLeft | ESymEqRight | EFallback.
Inductive lbranch : Type := LLeaf | LList | LDict | LSymLt | LNoneMissing | LNative.

Definition eq_branches : list ebranch := [%s].
(* base.lt first compares the type-order strings when the types differ, then: *)
Definition lt_branches : list lbranch := [%s].
''' % ('; '.join(eq_order), '; '.join(lt_order))
  return text, dict(eq=eq_order, lt=lt_order)

if __name__ == '__main__':
  if '--fingerprints' in sys.argv:
    _, _, found = read()
    print('BODY_FP = {')
    for k in BODY_FP: print('    %r: %r,' % (k, found.get(k)))
    print('}')
  else:
    print(translate()[0])

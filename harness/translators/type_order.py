"""Translator for C06: /repo/pyglove/core/symbolic/base.py::_type_order -> coq/Gen/TypeOrder.v

Reads the if/elif chain of `_type_order` with `ast` and emits, for every kind of value the model has,
the string `str(type_order)` the code returns for it (first branch whose test the kind satisfies).
Fail-closed: any statement or test shape that is not recognised raises TranslationError.  Never imports pyglove.
"""
import ast, os

class TranslationError(Exception):
  pass

REPO = os.environ.get('VERIF_REPO', '/repo')
SRC = 'pyglove/core/symbolic/base.py'

# model kind -> the builtin type names an instance of that kind is an instance of (isinstance semantics)
KIND_TYPES = {
    'missing': {'utils.MissingValue'},
    'none': {'NoneType'},
    'bool': {'bool', 'int'},
    'int': {'int'},
    'float': {'float'},
    'str': {'str'},
    'list': {'list'},       # also pg.List (subclass of list)
    'tuple': {'tuple'},
    'dict': {'dict'},       # also pg.Dict (subclass of dict)
}
KNOWN_TYPES = {'bool', 'int', 'float', 'str', 'list', 'tuple', 'set', 'frozenset', 'dict', 'bytes', 'complex', 'utils.MissingValue'}

def _type_name(node):
  if isinstance(node, ast.Name):
    return node.id
  if isinstance(node, ast.Attribute) and isinstance(node.value, ast.Name):
    return '%s.%s' % (node.value.id, node.attr)
  raise TranslationError('unrecognised type expression: %s' % ast.dump(node))

def _test_types(test, arg):
  """The set of type names the test accepts, or {'NoneType'} for `value is None`."""
  if isinstance(test, ast.Call) and isinstance(test.func, ast.Name) and test.func.id == 'isinstance' \
      and len(test.args) == 2 and not test.keywords and isinstance(test.args[0], ast.Name) and test.args[0].id == arg:
    t = test.args[1]
    names = [_type_name(e) for e in t.elts] if isinstance(t, ast.Tuple) else [_type_name(t)]
    for n in names:
      if n not in KNOWN_TYPES:
        raise TranslationError('isinstance against a type the translator does not know: %s' % n)
    return set(names)
  if isinstance(test, ast.Compare) and isinstance(test.left, ast.Name) and test.left.id == arg and len(test.ops) == 1 \
      and isinstance(test.ops[0], ast.Is) and isinstance(test.comparators[0], ast.Constant) and test.comparators[0].value is None:
    return {'NoneType'}
  raise TranslationError('unrecognised test in _type_order: %s' % ast.dump(test))

def _assigned(body, var):
  """body must be exactly `var = <expr>`; returns the expr."""
  if len(body) == 1 and isinstance(body[0], ast.Assign) and len(body[0].targets) == 1 \
      and isinstance(body[0].targets[0], ast.Name):
    if var[0] is None:
      var[0] = body[0].targets[0].id
    if body[0].targets[0].id == var[0]:
      return body[0].value
  raise TranslationError('unrecognised branch body in _type_order: %s' % [ast.dump(s) for s in body])

def read_table(path=None):
  path = path or os.path.join(REPO, SRC)
  tree = ast.parse(open(path, encoding='utf-8').read())
  fns = [n for n in tree.body if isinstance(n, ast.FunctionDef) and n.name == '_type_order']
  if len(fns) != 1:
    raise TranslationError('expected exactly one top-level function _type_order, found %d' % len(fns))
  fn = fns[0]
  if len(fn.args.args) != 1 or fn.args.vararg or fn.args.kwarg or fn.args.kwonlyargs or fn.decorator_list:
    raise TranslationError('unexpected signature of _type_order')
  arg = fn.args.args[0].arg
  body = list(fn.body)
  if body and isinstance(body[0], ast.Expr) and isinstance(body[0].value, ast.Constant) and isinstance(body[0].value.value, str):
    body = body[1:]
  if len(body) != 2 or not isinstance(body[0], ast.If) or not isinstance(body[1], ast.Return):
    raise TranslationError('_type_order is not `if-chain; return`: %s' % [type(s).__name__ for s in body])
  var = [None]
  branches = []   # (set of type names, constant)
  node = body[0]
  other = None
  while True:
    types = _test_types(node.test, arg)
    val = _assigned(node.body, var)
    if not (isinstance(val, ast.Constant) and isinstance(val.value, (int, str)) and not isinstance(val.value, bool)):
      raise TranslationError('branch value is not an int/str constant: %s' % ast.dump(val))
    branches.append((types, val.value))
    if len(node.orelse) == 1 and isinstance(node.orelse[0], ast.If):
      node = node.orelse[0]; continue
    other = _assigned(node.orelse, var)
    break
  want_other = "Attribute(value=Call(func=Name(id='type', ctx=Load()), args=[Name(id='%s', ctx=Load())], keywords=[]), attr='__qualname__', ctx=Load())" % arg
  if ast.dump(other) != want_other:
    raise TranslationError('the final else of _type_order is not type(value).__qualname__: %s' % ast.dump(other))
  ret = body[1].value
  want_ret = "Call(func=Name(id='str', ctx=Load()), args=[Name(id='%s', ctx=Load())], keywords=[])" % var[0]
  if ret is None or ast.dump(ret) != want_ret:
    raise TranslationError('_type_order does not return str(%s)' % var[0])
  table = {}
  for kind, its in KIND_TYPES.items():
    for types, const in branches:
      if types & its:
        table[kind] = str(const); break
    else:
      raise TranslationError('no branch of _type_order covers kind %s (it would be ranked by its __qualname__, which the model does not represent)' % kind)
  return table, branches

ORDER = ['missing', 'none', 'bool', 'int', 'float', 'str', 'list', 'tuple', 'dict']

def translate():
  table, branches = read_table()
  def cps(s): return '[' + '; '.join(str(ord(c)) for c in s) + ']'
  doc = ', '.join('%s -> "%s"' % (k, table[k]) for k in ORDER)
  text = '''(* GENERATED by harness/translators/type_order.py from pyglove/core/symbolic/base.py (_type_order).
   Do not edit: rewritten by every run of ./check C06 when the source text changes.
   Each rank is the string str(type_order) the code computes for one value of that kind, as code points. *)
From Coq Require Import NArith List.
Import ListNotations.
Local Open Scope N_scope.

Record ranks : Type := mk_ranks {
  r_missing : list N; r_none : list N; r_bool : list N; r_int : list N; r_float : list N;
  r_str : list N; r_list : list N; r_tuple : list N; r_dict : list N }.

(* %s;
   any other value: type(value).__qualname__ *)
Definition tbl : ranks := mk_ranks %s.
''' % (doc, ' '.join(cps(table[k]) for k in ORDER))
  return text, dict(table=table)

if __name__ == '__main__':
  print(translate()[0])

"""Translator for C10: /repo/pyglove/core/utils/value_location.py -> coq/Gen/KeyPathSrc.v

Reads (with `ast` only; never imports pyglove) the bodies of KeyPath.parse, its helper _append_key, KeyPath.path_str and
KeyPath._has_special_chars and emits them, statement by statement, as programs of the small imperative language of
coq/Model/KeyPathMachine.v.  Fail-closed: any statement, expression or condition whose shape is not recognised raises
TranslationError; the caller then treats the regenerated obligation as broken.
"""
import ast
import os

class TranslationError(Exception):
  pass

REPO = os.environ.get('VERIF_REPO', '/repo')
SRC = 'pyglove/core/utils/value_location.py'

def _strip_doc(body):
  if body and isinstance(body[0], ast.Expr) and isinstance(getattr(body[0], 'value', None), ast.Constant) \
      and isinstance(body[0].value.value, str):
    return body[1:]
  return body

def _d(node):
  return ast.dump(node)

def _is_name(n, name):
  return isinstance(n, ast.Name) and n.id == name

def _fail(what, node):
  raise TranslationError('%s: unrecognised shape at line %s: %s' % (what, getattr(node, 'lineno', '?'), _d(node)[:300]))

def _char(n, what):
  if isinstance(n, ast.Constant) and isinstance(n.value, str) and len(n.value) == 1:
    return ord(n.value)
  _fail(what + ' (expected a 1-character string constant)', n)

def _str_codes(n, what):
  if isinstance(n, ast.Constant) and isinstance(n.value, str):
    return [ord(c) for c in n.value]
  _fail(what + ' (expected a string constant)', n)

# ---- conditions of parse ---------------------------------------------------------------------------------
def tr_cond(n):
  if isinstance(n, ast.BoolOp) and isinstance(n.op, ast.And) and len(n.values) == 2:
    return '(CAnd %s %s)' % (tr_cond(n.values[0]), tr_cond(n.values[1]))
  if isinstance(n, ast.Compare) and len(n.ops) == 1 and len(n.comparators) == 1:
    l, op, r = n.left, n.ops[0], n.comparators[0]
    if _is_name(l, 'ch') and isinstance(op, ast.Eq):
      return '(CChEq %d%%N)' % _char(r, 'ch == ...')
    if _is_name(l, 'unmatched_brackets') and isinstance(r, ast.Constant) and r.value == 0 and type(r.value) is int:
      if isinstance(op, ast.Eq): return 'CDepthEq0'
      if isinstance(op, ast.Lt): return 'CDepthLt0'
      if isinstance(op, ast.NotEq): return '(CNot CDepthEq0)'
    if _is_name(l, 'key_start') and isinstance(op, ast.NotEq) and _d(r) == _d(ast.parse('len(path_str)', mode='eval').body):
      return 'CKeyStartNeLen'
  _fail('condition', n)

SLICE_KS_POS = _d(ast.parse('path_str[key_start:pos]', mode='eval').body)
SLICE_KS_END = _d(ast.parse('path_str[key_start:]', mode='eval').body)
POS_PLUS_1 = _d(ast.parse('pos + 1', mode='eval').body)

def _bool_const(n, what):
  if isinstance(n, ast.Constant) and isinstance(n.value, bool):
    return 'true' if n.value else 'false'
  _fail(what + ' (expected True/False)', n)

def tr_append_call(call, after_loop):
  """_append_key(<key expr>[, preserve_empty[, maybe_numeric]]) -> (prefix stmts, SAppendKey pe num)"""
  if not (isinstance(call, ast.Call) and _is_name(call.func, '_append_key')):
    _fail('call', call)
  args = list(call.args)
  kw = {k.arg: k.value for k in call.keywords}
  if not args: _fail('_append_key without arguments', call)
  pre = []
  a0 = args[0]
  if _is_name(a0, 'key'):
    pass
  elif after_loop and _d(a0) == SLICE_KS_END:
    pre.append('SKeySlice')
  else:
    _fail('_append_key first argument', a0)
  pe = _bool_const(args[1], 'preserve_empty') if len(args) > 1 else (_bool_const(kw.pop('preserve_empty'), 'preserve_empty') if 'preserve_empty' in kw else 'false')
  num = _bool_const(args[2], 'maybe_numeric') if len(args) > 2 else (_bool_const(kw.pop('maybe_numeric'), 'maybe_numeric') if 'maybe_numeric' in kw else 'false')
  if len(args) > 3 or kw: _fail('_append_key arguments', call)
  return pre + ['(SAppendKey %s %s)' % (pe, num)]

def _raise_kind(n):
  if not (isinstance(n.exc, ast.Call) and _is_name(n.exc.func, 'ValueError') and n.cause is None):
    _fail('raise', n)
  text = ''.join(v.value for a in n.exc.args for v in ast.walk(a) if isinstance(v, ast.Constant) and isinstance(v.value, str))
  if 'unmatched close bracket' in text: return 'PEClose'
  if 'unmatched open bracket' in text: return 'PEOpen'
  _fail('raise ValueError with an unknown message', n)

def seq(stmts):
  if not stmts: return 'SSkip'
  out = stmts[-1]
  for s in reversed(stmts[:-1]):
    out = '(SSeq %s %s)' % (s, out)
  return out

def tr_stmts(body, after_loop=False):
  out = []
  for st in body:
    if isinstance(st, ast.AugAssign) and _is_name(st.target, 'unmatched_brackets') and isinstance(st.value, ast.Constant) \
        and type(st.value.value) is int and isinstance(st.op, (ast.Add, ast.Sub)):
      z = st.value.value if isinstance(st.op, ast.Add) else -st.value.value
      out.append('(SDepthAdd (%d)%%Z)' % z)
    elif isinstance(st, ast.Assign) and len(st.targets) == 1 and _is_name(st.targets[0], 'key') and _d(st.value) == SLICE_KS_POS and not after_loop:
      out.append('SKeySlice')
    elif isinstance(st, ast.Assign) and len(st.targets) == 1 and _is_name(st.targets[0], 'key_start') and _d(st.value) == POS_PLUS_1 and not after_loop:
      out.append('SKeyStartNext')
    elif isinstance(st, ast.Expr) and isinstance(st.value, ast.Call):
      out += tr_append_call(st.value, after_loop)
    elif isinstance(st, ast.Raise):
      out.append('(SRaise %s)' % _raise_kind(st))
    elif isinstance(st, ast.If):
      out.append('(SIf %s %s %s)' % (tr_cond(st.test), tr_stmts(st.body, after_loop), tr_stmts(st.orelse, after_loop)))
    else:
      _fail('statement of parse', st)
  return seq(out)

# ---- _append_key -------------------------------------------------------------------------------------------
def tr_append_key(fn):
  a = fn.args
  names = [x.arg for x in a.args]
  defaults = [_d(x) for x in a.defaults]
  if names != ['key', 'preserve_empty', 'maybe_numeric'] or defaults != [_d(ast.Constant(value=False))] * 2 \
      or a.vararg or a.kwarg or a.kwonlyargs or a.posonlyargs:
    _fail('_append_key signature', fn)
  body = _strip_doc(fn.body)
  out = []
  for st in body:
    if isinstance(st, ast.If) and not st.orelse and len(st.body) == 1 and isinstance(st.body[0], ast.Return) and st.body[0].value is None \
        and _d(st.test) == _d(ast.parse('not (preserve_empty or key)', mode='eval').body):
      out.append('AKReturnIfEmptyNotPreserved')
    elif isinstance(st, ast.If) and not st.orelse and len(st.body) == 1 and _d(st.body[0]) == _d(ast.parse('key = int(key)').body[0]):
      t = st.test
      ok = isinstance(t, ast.BoolOp) and isinstance(t.op, ast.And) and len(t.values) == 2 and _is_name(t.values[0], 'maybe_numeric')
      c = None
      if ok:
        v = t.values[1]     # key.lstrip(<c>).isdigit()
        ok = (isinstance(v, ast.Call) and not v.args and not v.keywords and isinstance(v.func, ast.Attribute) and v.func.attr == 'isdigit'
              and isinstance(v.func.value, ast.Call) and isinstance(v.func.value.func, ast.Attribute) and v.func.value.func.attr == 'lstrip'
              and _is_name(v.func.value.func.value, 'key') and len(v.func.value.args) == 1 and not v.func.value.keywords)
        if ok: c = _char(v.func.value.args[0], 'lstrip argument')
      if not ok: _fail('_append_key numeric test', st)
      out.append('(AKIntIfNumeric %d%%N)' % c)
    elif _d(st) == _d(ast.parse('keys.append(key)').body[0]):
      out.append('AKAppend')
    else:
      _fail('statement of _append_key', st)
  return '[' + '; '.join(out) + ']'

# ---- parse ---------------------------------------------------------------------------------------------------
def tr_parse(fn):
  names = [x.arg for x in fn.args.args]
  if names != ['cls', 'path_str', 'parent']:
    _fail('parse signature', fn)
  body = _strip_doc(fn.body)
  i = 0
  # optional type guard: if not isinstance(path_str, str): raise ValueError(...)
  if isinstance(body[i], ast.If) and _d(body[i].test) == _d(ast.parse('not isinstance(path_str, str)', mode='eval').body) \
      and len(body[i].body) == 1 and isinstance(body[i].body[0], ast.Raise) and not body[i].orelse:
    i += 1
  if _d(body[i]) != _d(ast.parse('keys = []').body[0]): _fail('parse: keys = []', body[i])
  i += 1
  if not (isinstance(body[i], ast.FunctionDef) and body[i].name == '_append_key'): _fail('parse: def _append_key', body[i])
  ak = tr_append_key(body[i]); i += 1
  if _d(body[i]) != _d(ast.parse('pos, key_start, unmatched_brackets = 0, 0, 0').body[0]): _fail('parse: initialisation', body[i])
  i += 1
  w = body[i]
  if not (isinstance(w, ast.While) and not w.orelse and _d(w.test) == _d(ast.parse('pos != len(path_str)', mode='eval').body)):
    _fail('parse: while', w)
  wb = w.body
  if len(wb) < 3 or _d(wb[0]) != _d(ast.parse('ch = path_str[pos]').body[0]) or _d(wb[-1]) != _d(ast.parse('pos += 1').body[0]):
    _fail('parse: loop frame (ch = path_str[pos]; ...; pos += 1)', w)
  for n in ast.walk(ast.Module(body=wb[1:-1], type_ignores=[])):
    if isinstance(n, (ast.Break, ast.Continue, ast.Return, ast.While, ast.For, ast.Try, ast.With)): _fail('parse: control flow in the loop', n)
    if isinstance(n, (ast.Assign, ast.AugAssign)):
      for t in ([n.target] if isinstance(n, ast.AugAssign) else n.targets):
        if isinstance(t, ast.Name) and t.id in ('pos', 'ch', 'path_str', 'keys'): _fail('parse: assignment to a loop variable', n)
  loop_body = tr_stmts(wb[1:-1])
  i += 1
  finals = []
  while i < len(body) and isinstance(body[i], ast.If):
    finals.append(body[i]); i += 1
  final = tr_stmts(finals, after_loop=True)
  if i != len(body) - 1 or _d(body[i]) != _d(ast.parse('return KeyPath(keys, parent)').body[0]):
    _fail('parse: return KeyPath(keys, parent)', body[i] if i < len(body) else fn)
  return ak, loop_body, final

# ---- path_str / _has_special_chars -----------------------------------------------------------------------------
PATH_STR_TEMPLATE = '''
s = []
for i, key in enumerate(self._keys):
  if ((isinstance(key, str)
       and not (preserve_complex_keys and self._has_special_chars(key)))
      or isinstance(key, StrKey)):
    if i != 0:
      s.append(%(sep)r)
    s.append(str(key))
  else:
    s.append(f'%(open)s{key}%(close)s')
return ''.join(s)
'''

def tr_path_str(fn, special_fn):
  names = [x.arg for x in fn.args.args]
  if names != ['self', 'preserve_complex_keys'] or [_d(x) for x in fn.args.defaults] != [_d(ast.Constant(value=True))]:
    _fail('path_str signature', fn)
  body = _strip_doc(fn.body)
  # extract the constants, then compare the whole body with the template instantiated with them
  try:
    loop = body[1]
    sep = loop.body[0].body[0].body[0].value.args[0].value
    js = loop.body[0].orelse[0].value.args[0]
    open_, close = js.values[0].value, js.values[2].value
  except Exception:
    _fail('path_str body', fn)
  for x in (sep, open_, close):
    if not isinstance(x, str) or not x or any(c in x for c in "{}'\\\n"): _fail('path_str constants', fn)
  exp = ast.parse(PATH_STR_TEMPLATE % dict(sep=sep, open=open_, close=close)).body
  if [_d(x) for x in body] != [_d(x) for x in exp]:
    _fail('path_str body differs from the recognised loop', fn)
  sb = _strip_doc(special_fn.body)
  if [x.arg for x in special_fn.args.args] != ['self', 'key'] or len(sb) != 1 or not isinstance(sb[0], ast.Return):
    _fail('_has_special_chars', special_fn)
  try:
    lst = sb[0].value.args[0].generators[0].iter
    chars = [e.value for e in lst.elts]
  except Exception:
    _fail('_has_special_chars body', special_fn)
  if not chars or any(not isinstance(c, str) or len(c) != 1 for c in chars): _fail('_has_special_chars constants', special_fn)
  exp2 = ast.parse('return any([c in key for c in %r])' % (chars,)).body
  if [_d(x) for x in sb] != [_d(x) for x in exp2]:
    _fail('_has_special_chars differs from `any([c in key for c in [...]])`', special_fn)
  nl = lambda s: '[' + '; '.join('%d%%N' % ord(c) for c in s) + ']'
  return '{| fp_special := %s; fp_sep := %s; fp_open := %s; fp_close := %s |}' % (nl(chars), nl(sep), nl(open_), nl(close))

def translate():
  path = os.path.join(REPO, SRC)
  tree = ast.parse(open(path, encoding='utf-8').read())
  cls = [n for n in tree.body if isinstance(n, ast.ClassDef) and n.name == 'KeyPath']
  if len(cls) != 1: raise TranslationError('class KeyPath not found exactly once')
  fns = {}
  for n in cls[0].body:
    if isinstance(n, ast.FunctionDef):
      if n.name in fns: raise TranslationError('method %s defined twice' % n.name)
      fns[n.name] = n
  for need in ('parse', 'path_str', '_has_special_chars'):
    if need not in fns: raise TranslationError('KeyPath.%s not found' % need)
  if [_d(d) for d in fns['parse'].decorator_list] != [_d(ast.parse('classmethod', mode='eval').body)]:
    raise TranslationError('parse is not a plain classmethod')
  if fns['path_str'].decorator_list or fns['_has_special_chars'].decorator_list:
    raise TranslationError('unexpected decorator')
  # __str__/path/format must print through path_str()
  def body_is(name, src):
    if name not in fns or [_d(x) for x in _strip_doc(fns[name].body)] != [_d(x) for x in ast.parse(src).body]:
      raise TranslationError('KeyPath.%s is not `%s`' % (name, src.strip()))
  body_is('__str__', 'return self.path')
  body_is('path', 'if self._path_str is None:\n  self._path_str = self.path_str()\nreturn self._path_str')
  ak, loop_body, final = tr_parse(fns['parse'])
  fp = tr_path_str(fns['path_str'], fns['_has_special_chars'])
  text = ('(* KeyPathSrc.v — GENERATED by harness/translators/keypath_src.py from %s on every run; do not edit.\n'
          '   The bodies of KeyPath.parse / _append_key / path_str / _has_special_chars as programs of Model/KeyPathMachine.v. *)\n'
          'From Coq Require Import NArith ZArith List Bool.\nImport ListNotations.\n'
          'From PG Require Import Model.KeyPath Model.KeyPathMachine.\n\n'
          'Definition src_append_key : list akstmt :=\n  %s.\n\n'
          'Definition src_parse_body : stmt :=\n  %s.\n\n'
          'Definition src_parse_final : stmt :=\n  %s.\n\n'
          'Definition src_parse : parse_prog := {| pp_ak := src_append_key; pp_body := src_parse_body; pp_final := src_parse_final |}.\n\n'
          'Definition src_fmt : fmt_params :=\n  %s.\n') % (SRC, ak, loop_body, final, fp)
  return text, dict(append_key=ak, body=loop_body, final=final, fmt=fp)

if __name__ == '__main__':
  print(translate()[0])

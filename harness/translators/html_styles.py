"""Translator for C20: /repo/pyglove/core/views/html/{tree_view,base}.py -> coq/Gen/HtmlStyles.v

Reads, with `ast` only (pyglove is never imported):
  * the CSS constant each HtmlTreeView method attaches with `.add_style("...")` (cleaned with inspect.cleandoc, as
    Html.Styles.content does), and
  * the functions of views/html/base.py that assemble the document (`Html.to_str`, `head_section`, `style_section`,
    `script_section`, `body_section`, `Html.Styles.content`), whose bodies must be exactly the shapes the model
    (Model/HtmlDoc.v: document) was written against.
Fail-closed: an add_style call in an unexpected method, with a non-literal argument, a second call in a method, an
add_script / add_*_file call anywhere in the tree view, or a changed assembly function raises TranslationError.
"""
import ast, inspect, os

class TranslationError(Exception):
  pass

REPO = os.environ.get('VERIF_REPO', '/repo')

# method of HtmlTreeView -> Coq name(s) of the constant(s), in source order of the calls
EXPECTED = {
    '_render': ['css_debug', 'css_details'],
    'summary': ['css_summary'],
    'object_key': ['css_object_key'],
    'simple_value': ['css_simple_value'],
    'complex_value': ['css_complex_value'],
    'tooltip': ['css_tooltip'],
}

EXPECTED_BASE = {
    'to_str': "[If(test=Name(id='content_only', ctx=Load()), body=[Return(value=Attribute(value=Name(id='self', ctx=Load()), attr='content', ctx=Load()))], orelse=[]), "
              "Return(value=Call(func=Attribute(value=Constant(value='\\n'), attr='join', ctx=Load()), args=[ListComp(elt=Name(id='v', ctx=Load()), "
              "generators=[comprehension(target=Name(id='v', ctx=Store()), iter=List(elts=[Constant(value='<html>'), Attribute(value=Name(id='self', ctx=Load()), attr='head_section', ctx=Load()), "
              "Attribute(value=Name(id='self', ctx=Load()), attr='body_section', ctx=Load()), Constant(value='</html>')], ctx=Load()), ifs=[Name(id='v', ctx=Load())], is_async=0)])], keywords=[]))]",
    'head_section': "[Return(value=Call(func=Attribute(value=Constant(value='\\n'), attr='join', ctx=Load()), args=[ListComp(elt=Name(id='v', ctx=Load()), "
                    "generators=[comprehension(target=Name(id='v', ctx=Store()), iter=List(elts=[Constant(value='<head>'), Attribute(value=Name(id='self', ctx=Load()), attr='style_section', ctx=Load()), "
                    "Attribute(value=Name(id='self', ctx=Load()), attr='script_section', ctx=Load()), Constant(value='</head>')], ctx=Load()), ifs=[Name(id='v', ctx=Load())], is_async=0)])], keywords=[]))]",
    'style_section': "[Return(value=Call(func=Attribute(value=Constant(value='\\n'), attr='join', ctx=Load()), args=[ListComp(elt=Name(id='v', ctx=Load()), "
                     "generators=[comprehension(target=Name(id='v', ctx=Store()), iter=List(elts=[Attribute(value=Attribute(value=Name(id='self', ctx=Load()), attr='style_files', ctx=Load()), attr='content', ctx=Load()), "
                     "Attribute(value=Attribute(value=Name(id='self', ctx=Load()), attr='styles', ctx=Load()), attr='content', ctx=Load())], ctx=Load()), ifs=[Name(id='v', ctx=Load())], is_async=0)])], keywords=[]))]",
    'script_section': "[Return(value=Call(func=Attribute(value=Constant(value='\\n'), attr='join', ctx=Load()), args=[ListComp(elt=Name(id='v', ctx=Load()), "
                      "generators=[comprehension(target=Name(id='v', ctx=Store()), iter=List(elts=[Attribute(value=Attribute(value=Name(id='self', ctx=Load()), attr='script_files', ctx=Load()), attr='content', ctx=Load()), "
                      "Attribute(value=Attribute(value=Name(id='self', ctx=Load()), attr='scripts', ctx=Load()), attr='content', ctx=Load())], ctx=Load()), ifs=[Name(id='v', ctx=Load())], is_async=0)])], keywords=[]))]",
    'body_section': "[Return(value=JoinedStr(values=[Constant(value='<body>\\n'), FormattedValue(value=Attribute(value=Name(id='self', ctx=Load()), attr='content', ctx=Load()), conversion=-1), Constant(value='\\n</body>')]))]",
    'Styles.content': "[If(test=Attribute(value=Name(id='self', ctx=Load()), attr='parts', ctx=Load()), body=[Assign(targets=[Name(id='styles', ctx=Store())], "
                      "value=Call(func=Attribute(value=Constant(value='\\n'), attr='join', ctx=Load()), args=[ListComp(elt=Call(func=Attribute(value=Name(id='inspect', ctx=Load()), attr='cleandoc', ctx=Load()), "
                      "args=[Name(id='v', ctx=Load())], keywords=[]), generators=[comprehension(target=Name(id='v', ctx=Store()), iter=Call(func=Attribute(value=Attribute(value=Name(id='self', ctx=Load()), attr='parts', ctx=Load()), "
                      "attr='keys', ctx=Load()), args=[], keywords=[]), ifs=[], is_async=0)])], keywords=[])), Return(value=JoinedStr(values=[Constant(value='<style>\\n'), "
                      "FormattedValue(value=Name(id='styles', ctx=Load()), conversion=-1), Constant(value='\\n</style>')]))], orelse=[]), Return(value=Constant(value=''))]",
}

def _strip_doc(body):
  if body and isinstance(body[0], ast.Expr) and isinstance(getattr(body[0], 'value', None), ast.Constant) and isinstance(body[0].value.value, str):
    return body[1:]
  return body

def _find_class(tree, name):
  for n in tree.body:
    if isinstance(n, ast.ClassDef) and n.name == name:
      return n
  raise TranslationError('class %s not found' % name)

def _methods(cls):
  return {n.name: n for n in cls.body if isinstance(n, ast.FunctionDef)}

def read_styles():
  path = os.path.join(REPO, 'pyglove/core/views/html/tree_view.py')
  tree = ast.parse(open(path, encoding='utf-8').read())
  view = _find_class(tree, 'HtmlTreeView')
  out = {}
  for fn in [n for n in view.body if isinstance(n, ast.FunctionDef)]:
    calls = [c for c in ast.walk(fn) if isinstance(c, ast.Call) and isinstance(c.func, ast.Attribute)
             and c.func.attr in ('add_style', 'add_script', 'add_style_file', 'add_script_file')]
    if not calls and fn.name not in EXPECTED:
      continue
    if any(c.func.attr != 'add_style' for c in calls):
      raise TranslationError('%s: %s is not modelled' % (fn.name, [c.func.attr for c in calls]))
    if fn.name not in EXPECTED:
      raise TranslationError('add_style in unexpected method %s' % fn.name)
    # ast.walk order is not source order; the call objects carry the position of the *whole* expression, so order by the argument
    calls.sort(key=lambda c: c.args[0].lineno if c.args else 0)
    if len(calls) != len(EXPECTED[fn.name]):
      raise TranslationError('%s: %d add_style calls, expected %d' % (fn.name, len(calls), len(EXPECTED[fn.name])))
    for c, nm in zip(calls, EXPECTED[fn.name]):
      if len(c.args) != 1 or c.keywords or not isinstance(c.args[0], ast.Constant) or not isinstance(c.args[0].value, str):
        raise TranslationError('%s: add_style argument is not a single string literal' % fn.name)
      out[nm] = inspect.cleandoc(c.args[0].value)
  for m in EXPECTED:
    for nm in EXPECTED[m]:
      if nm not in out:
        raise TranslationError('no add_style found in %s' % m)
  # the Extension entry point may add user styles; the model covers values without a view extension of their own
  return out

def check_base():
  path = os.path.join(REPO, 'pyglove/core/views/html/base.py')
  tree = ast.parse(open(path, encoding='utf-8').read())
  html = _find_class(tree, 'Html')
  ms = _methods(html)
  dump = lambda body: '[' + ', '.join(ast.dump(st) for st in _strip_doc(body)) + ']'
  got = {k: dump(ms[k].body) for k in ('to_str', 'head_section', 'style_section', 'script_section', 'body_section') if k in ms}
  styles = [n for n in html.body if isinstance(n, ast.ClassDef) and n.name == 'Styles']
  if not styles:
    raise TranslationError('Html.Styles not found')
  sm = _methods(styles[0])
  if 'content' in sm:
    got['Styles.content'] = dump(sm['content'].body)
  for k, want in EXPECTED_BASE.items():
    if got.get(k) != want:
      raise TranslationError('views/html/base.py: %s is not the shape the document model was written against' % k)

def coq_str(s):
  return '[' + '; '.join(str(ord(c)) for c in s) + ']'

def translate():
  styles = read_styles()
  check_base()
  names = [nm for m in EXPECTED for nm in EXPECTED[m]]
  lines = ['(* GENERATED by harness/translators/html_styles.py from pyglove/core/views/html/tree_view.py — do not edit. *)',
           'From Coq Require Import NArith List.', 'Import ListNotations.', 'Local Open Scope N_scope.', '']
  for nm in names:
    lines.append('Definition %s : list N := %s.' % (nm, coq_str(styles[nm])))
  lines.append('')
  lines.append('Definition all_css : list (list N) := [%s].' % '; '.join(names))
  return '\n'.join(lines) + '\n', dict(styles=styles)

if __name__ == '__main__':
  txt, info = translate()
  print(txt[:300]); print({k: len(v) for k, v in info['styles'].items()})

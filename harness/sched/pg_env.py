"""Binding of the deterministic scheduler (core.py) to pyglove's in-memory tuning backend (harness side only;
nothing in /repo is changed):

  * the `threading` name of local_backend.py and ext/evolution/base.py is rebound to a proxy whose `Lock()`
    returns an instrumented SchedLock (its acquire is a scheduling point); locks that already exist at module
    level are replaced as well;
  * LineMap turns the translator's line -> act map into the two callbacks the Controller needs: which frames
    are traced, and which `line` events are gates (the first line event of a translated statement, in the call
    context the translator inlined it in).
"""
import os, sys, threading
from . import core

_installed = {}

class _ThreadingProxy:
  def __init__(self, env):
    self._env = env
  def Lock(self):
    f = sys._getframe(1)
    lk = core.SchedLock(kind=f.f_code.co_name)
    self._env.on_lock_created(lk, f)
    return lk
  def __getattr__(self, n):
    return getattr(threading, n)


class Env:
  """Per-process installation; per-run state is reset with begin_run()."""
  def __init__(self):
    from pyglove.core.tuning import local_backend
    from pyglove.ext.evolution import base as evo_base
    self.local_backend, self.evo_base = local_backend, evo_base
    proxy = _ThreadingProxy(self)
    local_backend.threading = proxy
    evo_base.threading = proxy
    real = type(threading.Lock())
    self.module_locks = {}
    for m in (local_backend, evo_base):
      for k, v in list(vars(m).items()):
        if isinstance(v, real):
          lk = core.SchedLock(kind='module:' + k)
          setattr(m, k, lk)
          self.module_locks[k] = lk
    self.begin_run(None)

  def begin_run(self, main_algo):
    self.main_algo = main_algo
    self.studies = []          # _InMemoryResult objects in creation order
    self.algo_locks = 0        # how often Evolution._setup created a lock
    for lk in self.module_locks.values():
      lk.owner = None

  def on_lock_created(self, lk, frame):
    if frame.f_code.co_name == '__init__' and type(frame.f_locals.get('self')).__name__ == '_InMemoryResult':
      self.studies.append(frame.f_locals['self'])
      lk.name = ('study', len(self.studies) - 1)
    elif frame.f_code.co_name == '_setup':
      if frame.f_locals.get('self') is self.main_algo:
        self.algo_locks += 1
      lk.name = ('algo', self.algo_locks)


def install():
  if 'env' not in _installed:
    _installed['env'] = Env()
  return _installed['env']


class LineMap:
  def __init__(self, info, repo, env):
    self.env = env
    self.code = {}             # (abs file, def line) -> qual
    self.lines = {}            # qual -> {line: (stmt first line, kind)}
    for q, t in info['functions'].items():
      self.code[(os.path.realpath(os.path.join(repo, t['file'])), t['defline'])] = q
      self.lines[q] = t['lines']
    self.keymap = {}
    self.gate_text = {}
    for p, prog in enumerate(info['progs']):
      for i, a in enumerate(prog):
        if a['gate']:
          if a['key'] in self.keymap:
            raise ValueError('two gate acts for one source position: %r' % (a['key'],))
          self.keymap[a['key']] = (p, i)
          self.gate_text[(p, i)] = a['note']
    self.entries = set(info['entries'])
    self._qual_cache = {}
    self.unmapped = []         # [(thread, chain)] gates the map does not know: the run is not a valid trace
    self.untraced = {}         # functions of the anchored files that ran under a worker without being translated

  def qual_of(self, code):
    q = self._qual_cache.get(code, 0)
    if q == 0:
      q = self.code.get((os.path.realpath(code.co_filename), code.co_firstlineno))
      self._qual_cache[code] = q
    return q

  # Controller callbacks -----------------------------------------------------------------------------
  def accept_code(self, frame):
    q = self.qual_of(frame.f_code)
    if q is None:
      fn = frame.f_code.co_filename
      if fn.endswith(('tuning/local_backend.py', 'geno/dna_generator.py', 'evolution/base.py')):
        k = (os.path.basename(fn), frame.f_code.co_name)
        self.untraced[k] = self.untraced.get(k, 0) + 1
      return None
    if q.startswith(('alg.', 'evo.')) and frame.f_locals.get('self') is not self.env.main_algo:
      return None              # the same code running on another generator object (Evolution's initial-population generator)
    return q

  def chain_of(self, frame):
    ch = []
    f = frame
    while f is not None:
      q = self.qual_of(f.f_code)
      if q is None:
        break
      ent = self.lines[q].get(f.f_lineno)
      ch.append((q, ent[0] if ent else f.f_lineno))
      f = f.f_back
    ch.reverse()
    return tuple(ch)

  def gate_of(self, frame, state):
    q = self.qual_of(frame.f_code)
    ent = self.lines[q].get(frame.f_lineno)
    if ent is None:
      return None
    first, kind = ent
    if kind in ('with', 'try', 'except'):
      state[0] = None          # the acquire itself is the gate (SchedLock.acquire)
      return None
    if state[0] == first:
      return None              # a further line of the statement that is already running
    state[0] = first
    key = (self.chain_of(frame), 'line')
    pi = self.keymap.get(key)
    if pi is None:
      self.unmapped.append(key)
      return ('?', key)
    return ('L',) + pi

  def acquire_label(self, lock, frame):
    # frame: the function executing the `with` statement
    key = (self.chain_of(frame), 'acq')
    pi = self.keymap.get(key)
    if pi is None:
      self.unmapped.append(key)
      return ('?', key)
    return ('L',) + pi

"""A deterministic, statement-granular thread scheduler for CPython (used by C16).

Worker threads run under sys.settrace.  Whenever a worker reaches a *gate* (a `line` event the
caller's `gate_of(frame)` callback names, or an `acquire` of an instrumented lock) it parks on its own
semaphore and hands control to the controller, which picks the next thread to run according to a
*strategy* (a callable choosing among the enabled threads).  Exactly one worker runs at any time, so
the observed sequence of (thread, gate) pairs is a total order: the schedule.

Locks created through `SchedLock` make `acquire` a scheduling point: a thread that would block is
parked as *waiting for that lock* and is enabled only while the lock is free, so a parked lock holder
can never dead-lock the controller.  Lock events (acquire / release) are part of the trace.

Nothing here imports pyglove.
"""
import sys, threading, time

_real_allocate = threading.Lock          # the genuine factory, captured before anyone rebinds names
_tls = threading.local()                 # .worker -> Worker of the current thread (absent on unmanaged threads)


class SchedulerError(Exception):
  pass


class Deadlock(Exception):
  pass


class SchedLock:
  """Drop-in for threading.Lock() whose acquire is a scheduling point of the current Controller."""
  _counter = 0

  def __init__(self, kind=None):
    SchedLock._counter += 1
    self.serial = SchedLock._counter
    self.kind = kind                     # set by the factory from the creation site
    self.owner = None                    # Worker or 'unmanaged'
    self.name = None                     # filled by the harness (e.g. ('study', 0))

  # -- the threading.Lock protocol -------------------------------------------------------------
  def acquire(self, blocking=True, timeout=-1):
    w = getattr(_tls, 'worker', None)
    if w is None or w.ctl is None or not w.ctl.active:
      if self.owner is not None:
        if not blocking:
          return False
        raise SchedulerError('unmanaged thread would block on %r held by %r' % (self, self.owner))
      self.owner = 'unmanaged'
      return True
    if not blocking:
      if self.owner is not None:
        return False
      self.owner = w
      w.ctl.note(w, ('acq', self))
      return True
    label = ('acquire', self)
    if w.ctl.acquire_label is not None:
      f = sys._getframe(1)
      if f.f_code.co_name == '__enter__' and f.f_code.co_filename == __file__:
        f = f.f_back
      label = w.ctl.acquire_label(self, f)
    w.park(label, wait_lock=self)                      # returns only when the lock is free and we were chosen
    if self.owner is not None:
      raise SchedulerError('controller released %r onto a held lock' % (w,))
    self.owner = w
    w.held.append(self)
    return True

  def release(self):
    w = getattr(_tls, 'worker', None)
    if self.owner is None:
      raise RuntimeError('release unlocked lock')
    self.owner = None
    if w is not None and w.ctl is not None and w.ctl.active:
      if self in w.held:
        w.held.remove(self)
      w.ctl.note(w, ('release', self))

  def locked(self):
    return self.owner is not None

  def __enter__(self):
    self.acquire()
    return True

  def __exit__(self, *a):
    self.release()

  def __repr__(self):
    return '<SchedLock #%d %s>' % (self.serial, self.name or self.kind or '')


class Worker:
  def __init__(self, ctl, idx, fn):
    self.ctl, self.idx, self.fn = ctl, idx, fn
    self.go = threading.Semaphore(0)
    self.state = 'new'                   # new | parked | running | done
    self.label = None                    # the gate the thread is parked at
    self.wait_lock = None
    self.held = []
    self.error = None
    self.result = None
    self.thread = None
    self.steps = 0

  def enabled(self):
    if self.state != 'parked':
      return False
    return self.wait_lock is None or self.wait_lock.owner is None

  def park(self, label, wait_lock=None):
    """Called on the worker's own thread: hand control to the controller and wait to be chosen."""
    ctl = self.ctl
    if ctl.aborting:
      raise SystemExit
    self.label, self.wait_lock = label, wait_lock
    self.state = 'parked'
    ctl.wake.release()
    self.go.acquire()
    if ctl.aborting:
      raise SystemExit
    self.state = 'running'
    self.wait_lock = None

  def _main(self):
    _tls.worker = self
    try:
      self.park(('start',))
      sys.settrace(self.ctl._global_trace)
      try:
        self.result = self.fn()
      finally:
        sys.settrace(None)
    except SystemExit:
      pass
    except BaseException as e:           # a worker crash is an observation, not a harness failure
      self.error = e
    finally:
      self.state = 'done'
      self.ctl.note(self, ('exit',))
      _tls.worker = None
      self.ctl.wake.release()

  def __repr__(self):
    return '<W%d %s %s>' % (self.idx, self.state, self.label)


class Controller:
  """Runs `fns` (one per worker thread) under a strategy.

  gate_of(frame) -> label or None   is consulted on every `line` event of frames accepted by
  accept_code(frame) -> bool (called once per function call; False = never trace inside).
  strategy(ctl, enabled_workers) -> Worker.
  """

  def __init__(self, fns, strategy, gate_of, accept_code, acquire_label=None, max_steps=200000, step_timeout=30.0):
    self.acquire_label = acquire_label
    self.after_gate = None
    self.workers = [Worker(self, i, f) for i, f in enumerate(fns)]
    self.strategy = strategy
    self.gate_of, self.accept_code = gate_of, accept_code
    self.wake = threading.Semaphore(0)
    self.trace = []                      # [(tid, label)] every executed gate, in order
    self.events = []                     # trace plus lock notes
    self.decisions = []                  # [tid] one per controller decision (the replayable schedule)
    self.active = False
    self.aborting = False
    self.max_steps, self.step_timeout = max_steps, step_timeout
    self.current = None
    self.step = 0
    self.outcome = None

  # -- tracing -----------------------------------------------------------------------------------
  def _global_trace(self, frame, event, arg):
    if event != 'call':
      return None
    tag = self.accept_code(frame)
    if not tag:
      return None
    w = _tls.worker
    gate_of = self.gate_of
    state = [None]
    def local(frame, event, arg):
      if event == 'line':
        label = gate_of(frame, state)
        if label is not None:
          w.park(label)
          if self.after_gate is not None:
            self.after_gate(w, label, frame)      # runs on the worker, right before the gated statement executes
      return local
    return local

  def note(self, w, what):
    self.events.append((w.idx, what))

  # -- main loop ----------------------------------------------------------------------------------
  def run(self):
    self.active = True
    t0 = time.time()
    try:
      for w in self.workers:             # bring every worker to its start gate, one at a time
        w.thread = threading.Thread(target=w._main, daemon=True)
        w.thread.start()
        self._wait()
      while True:
        live = [w for w in self.workers if w.state != 'done']
        if not live:
          self.outcome = 'finished'
          break
        en = [w for w in live if w.enabled()]
        if not en:
          self.outcome = 'deadlock'
          break
        if self.step >= self.max_steps:
          self.outcome = 'step-limit'
          break
        w = self.strategy(self, en)
        self.decisions.append(w.idx)
        if w.label != ('start',):
          self.trace.append((w.idx, w.label))
          self.events.append((w.idx, ('gate', w.label)))
        self.step += 1
        w.steps += 1
        self.current = w
        w.go.release()
        self._wait()
    finally:
      if self.outcome != 'finished':
        self.aborting = True
        for w in self.workers:
          if w.state != 'done':
            w.go.release()
        for w in self.workers:
          if w.thread is not None:
            w.thread.join(2.0)
      self.active = False
      self.wall = time.time() - t0
    return self

  def _wait(self):
    if not self.wake.acquire(timeout=self.step_timeout):
      self.outcome = 'timeout'
      raise SchedulerError('no worker reported back within %.0fs (step %d, current %r)' % (self.step_timeout, self.step, self.current))


# ------------------------------------------------------------------------------------------------
# strategies
def nonpreemptive(ctl, en):
  """Keeps running the current thread while it can move; otherwise the enabled thread with the lowest index."""
  if ctl.current in en:
    return ctl.current
  return min(en, key=lambda w: w.idx)


def replay_strategy(decisions, then=None):
  """Follows a recorded decision list; when it runs out (or diverges) falls back to `then` (default: lowest tid)."""
  it = iter(decisions)
  state = dict(diverged=False, used=0)
  def choose(ctl, en):
    if not state['diverged']:
      try:
        t = next(it)
        for w in en:
          if w.idx == t:
            state['used'] += 1
            return w
        state['diverged'] = True
      except StopIteration:
        state['diverged'] = True
    return then(ctl, en) if then else en[0]
  choose.state = state
  return choose


def random_strategy(rng, switch_prob=None):
  """Uniform random choice among enabled threads; with switch_prob, keeps running the current thread
  with probability 1 - switch_prob (longer uninterrupted stretches)."""
  def choose(ctl, en):
    if switch_prob is not None and ctl.current in en and rng.random() >= switch_prob:
      return ctl.current
    return en[rng.randrange(len(en))]
  return choose


def pct_strategy(rng, nthreads, depth, est_len):
  """PCT (Burckhardt et al.): random distinct priorities, depth-1 random priority change points."""
  prio = list(range(depth, depth + nthreads))
  rng.shuffle(prio)
  change = sorted(rng.randrange(1, max(2, est_len)) for _ in range(max(0, depth - 1)))
  st = dict(k=0)
  def choose(ctl, en):
    w = max(en, key=lambda w: prio[w.idx])
    st['k'] += 1
    while change and st['k'] >= change[0]:
      change.pop(0)
      prio[w.idx] = len(change)          # lower than every initial priority, distinct per change point
    return w
  return choose


def preempt_at_strategy(rng, match, victim_order=None, resume_after=None):
  """Non-preemptive (run the current thread while it is enabled) except: the first time a thread is about
  to execute a gate for which match(label) holds *having just been chosen*, i.e. right AFTER that gate ran,
  control moves to the other threads (in victim_order / random order), each run until it blocks, finishes or
  resume_after steps passed; then the preempted thread resumes."""
  st = dict(fired=False, preempted=None, budget=None)
  def choose(ctl, en):
    cur = ctl.current
    if not st['fired'] and cur is not None and ctl.trace and ctl.trace[-1][0] == cur.idx and match(ctl.trace[-1][1]):
      st['fired'] = True
      st['preempted'] = cur
      st['budget'] = resume_after
      others = [w for w in en if w is not cur]
      if others:
        return others[rng.randrange(len(others))] if victim_order is None else sorted(others, key=lambda w: victim_order.index(w.idx) if w.idx in victim_order else 99)[0]
    if st['preempted'] is not None:
      others = [w for w in en if w is not st['preempted']]
      if st['budget'] is not None:
        st['budget'] -= 1
        if st['budget'] <= 0:
          others = []
      if others:
        if cur in others:
          return cur
        return others[rng.randrange(len(others))]
      p = st['preempted']; st['preempted'] = None
      if p in en:
        return p
    if cur in en:
      return cur
    return en[rng.randrange(len(en))]
  choose.state = st
  return choose

#!/bin/bash
# allcheck.sh [tier]: every check registered in MANIFEST.json, one after the other, with a one-line summary each.
cd "$(dirname "$0")/.."
TIER=${1:-quick}
for P in $(/venv/bin/python -c "import json;print(' '.join(c['property_id'] for c in json.load(open('MANIFEST.json'))['checks']))" 2>/dev/null); do
  S=$(date +%s); OUT=$(./check $P --tier $TIER 2>&1); RC=$?; E=$(( $(date +%s) - S ))
  echo "$P rc=$RC ${E}s $(echo "$OUT" | grep -c '^VIOLATION') violations, $(echo "$OUT" | grep -c '^KNOWN-FINDING') known findings :: $(echo "$OUT" | tail -1 | cut -c1-160)"
  echo "$OUT" | grep -E '^VIOLATION|^KNOWN-FINDING' | cut -c1-200
done
python3-vt harness/validate.py 2>&1 | grep -v WARN | grep -v ": valid"

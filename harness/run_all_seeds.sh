#!/bin/bash
# run_all_seeds.sh [lanes]: every kept seeded change through harness/run_seed.sh; one summary line each, table in .work/seeds.txt
cd "$(dirname "$0")/.."
LANES=${1:-3}
mkdir -p .work
: > .work/seeds.txt
ls -d seeded/*/ | xargs -P $LANES -I{} bash -c 'harness/run_seed.sh {} 2>&1 | grep "^SEED" >> .work/seeds.txt'
sort .work/seeds.txt
echo "caught with a concrete replay: $(grep -c 'check_rc=1 .*no_failing_input_found=0' .work/seeds.txt) / $(ls -d seeded/*/ | wc -l)"

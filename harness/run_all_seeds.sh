#!/bin/bash
# run_all_seeds.sh [lanes]: every kept seeded change through harness/run_seed.sh; one summary line each, table in .work/seeds.txt.
# One lane per property: the seeds of one property run one after the other (a scratch run regenerates that property's coq/Gen files),
# different properties run side by side.
cd "$(dirname "$0")/.."
LANES=${1:-4}
mkdir -p .work
: > .work/seeds.txt
run_prop() { for d in seeded/$1-*/; do [ -f "$d/meta.json" ] && harness/run_seed.sh "$d" 2>&1 | grep "^SEED" >> .work/seeds.txt; done; }
export -f run_prop
ls -d seeded/C*/ | sed 's#seeded/\(C[0-9]*\)-.*#\1#' | sort -u | xargs -P $LANES -I{} bash -c 'run_prop {}'
sort .work/seeds.txt
echo "caught with a concrete replay: $(grep -c 'check_rc=1 .*no_failing_input_found=0' .work/seeds.txt) / $(ls -d seeded/C*/ | wc -l)"

#!/bin/bash
# run_suite.sh <repo-dir> <out-prefix>: runs the pinned suite on a tree and reports stable_pass names that did not pass.
REPO_DIR=${1:-/repo}; OUT=${2:-/tmp/suite/run}
cd "$REPO_DIR" && /venv/bin/python -m pytest -ra -q -p no:cacheprovider --timeout=900 --continue-on-collection-errors --junitxml=$OUT.xml -n 8 > $OUT.log 2>&1
/venv/bin/python - "$OUT.xml" <<'PY'
import json, sys, xml.etree.ElementTree as ET
b = json.load(open('/root/.vp/BASELINE.json'))
stable = set(b['stable_pass'])
passed = set()
for tc in ET.parse(sys.argv[1]).getroot().iter('testcase'):
  name = '%s::%s' % (tc.get('classname'), tc.get('name'))
  if not any(c.tag in ('failure', 'error', 'skipped') for c in tc):
    passed.add(name)
missing = sorted(stable - passed)
print('stable_pass=%d passed_now=%d missing=%d' % (len(stable), len(passed & stable), len(missing)))
for m in missing[:40]: print('  NOT PASSING under xdist:', m)
open(sys.argv[1] + '.missing', 'w').write('\n'.join(missing))
PY
# re-run what did not pass serially (timing-sensitive tests fail under xdist load)
if [ -s "$OUT.xml.missing" ]; then
  ids=$(/venv/bin/python - "$OUT.xml.missing" <<'PY'
import sys
for l in open(sys.argv[1]).read().split('\n'):
  if not l: continue
  cls, name = l.split('::')
  parts = cls.split('.')
  print('/'.join(parts[:-1]) + '.py::' + parts[-1] + '::' + name)
PY
)
  /venv/bin/python -m pytest -q -p no:cacheprovider --timeout=900 $ids 2>&1 | tail -5
fi

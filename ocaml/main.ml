(* main.ml — the only hand-written OCaml: reads one case per line as a tree of integers
   "(1 2 (3 -4) ())", calls the extracted [Model.run : tr -> tr], prints the resulting tree in the
   same syntax.  Integers are converted exactly (Zarith <-> the extracted binary Z). *)
module BZ = Z

let rec pos_of_bz (n : BZ.t) : Model.positive =
  if BZ.equal n BZ.one then Model.XH
  else
    let q = BZ.shift_right n 1 in
    if BZ.testbit n 0 then Model.XI (pos_of_bz q) else Model.XO (pos_of_bz q)

let z_of_bz (n : BZ.t) : Model.z =
  let s = BZ.sign n in
  if s = 0 then Model.Z0
  else if s > 0 then Model.Zpos (pos_of_bz n)
  else Model.Zneg (pos_of_bz (BZ.neg n))

let rec bz_of_pos = function
  | Model.XH -> BZ.one
  | Model.XO p -> BZ.shift_left (bz_of_pos p) 1
  | Model.XI p -> BZ.succ (BZ.shift_left (bz_of_pos p) 1)

let bz_of_z = function
  | Model.Z0 -> BZ.zero
  | Model.Zpos p -> bz_of_pos p
  | Model.Zneg p -> BZ.neg (bz_of_pos p)

exception Bad of string

(* iterative parser: a stack of partially built lists (in reverse) *)
let parse (s : string) : Model.tr =
  let n = String.length s in
  let stack : Model.tr list list ref = ref [] in
  let cur : Model.tr list ref = ref [] in
  let result = ref None in
  let i = ref 0 in
  let push t =
    match !stack, !result with
    | [], None when false -> ()
    | _ -> cur := t :: !cur
  in
  let depth = ref 0 in
  while !i < n do
    let c = s.[!i] in
    if c = ' ' || c = '\t' || c = '\r' then incr i
    else if c = '(' then begin
      stack := !cur :: !stack; cur := []; incr depth; incr i
    end else if c = ')' then begin
      (match !stack with
       | [] -> raise (Bad "unbalanced )")
       | top :: rest ->
         let node = Model.L (List.rev !cur) in
         cur := top; stack := rest; decr depth;
         if !depth = 0 then result := Some node else push node);
      incr i
    end else begin
      let j = ref !i in
      while !j < n && (let d = s.[!j] in d = '-' || (d >= '0' && d <= '9')) do incr j done;
      if !j = !i then raise (Bad (Printf.sprintf "bad char %c" c));
      let tok = String.sub s !i (!j - !i) in
      let t = Model.I (z_of_bz (BZ.of_string tok)) in
      if !depth = 0 then result := Some t else push t;
      i := !j
    end
  done;
  if !depth <> 0 then raise (Bad "unbalanced (");
  match !result with Some t -> t | None -> raise (Bad "empty")

let rec print (b : Buffer.t) (t : Model.tr) : unit =
  match t with
  | Model.I z -> Buffer.add_string b (BZ.to_string (bz_of_z z))
  | Model.L l ->
    Buffer.add_char b '(';
    List.iteri (fun k x -> if k > 0 then Buffer.add_char b ' '; print b x) l;
    Buffer.add_char b ')'

let () =
  let b = Buffer.create 65536 in
  (try
     while true do
       let line = input_line stdin in
       if String.trim line = "" then print_string "\n"
       else begin
         Buffer.clear b;
         (try print b (Model.run (parse line))
          with
          | Bad m -> Buffer.clear b; Buffer.add_string b ("(-3) ; parse: " ^ m)
          | Stack_overflow -> Buffer.clear b; Buffer.add_string b "(-2) ; stack overflow"
          | e -> Buffer.clear b; Buffer.add_string b ("(-2) ; " ^ Printexc.to_string e));
         print_string (Buffer.contents b); print_char '\n'
       end
     done
   with End_of_file -> ());
  flush stdout
